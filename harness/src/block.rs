//! One OS process executes one block of consecutive runs from a fresh process image, so that
//! "(VERIF_SEED, block, run index)" is one exactly repeatable execution even for defects that keep
//! state in a `static` or `thread_local!` (run i then depends on runs < i of the same process).

use std::collections::BTreeSet;

use serde::{Deserialize, Serialize};

use crate::engine::{run_spec, Counters, Prop, RunOpts, RunResult, Violation};
use crate::gen::{gen_run, Mode};
use crate::rng::{derive, Fnv, Rng};
use crate::slots::{build_slot, BuildFail};
use crate::stub;
use crate::types::*;

pub const RUNS_PER_BLOCK_C17: usize = 256;
pub const BASES_PER_BLOCK_C18: usize = 24;

#[derive(Serialize, Deserialize, Clone, Debug)]
pub struct RunFile {
    pub format: String,
    pub property: String,
    pub kind: String,
    pub engine: String,
    pub verif_seed: u64,
    pub block: u64,
    pub run: u64,
    #[serde(default)]
    pub variant: String,
    /// >0 only if the failure needs the earlier runs of its block (process-global state)
    #[serde(default)]
    pub prefix_runs: u64,
    #[serde(default)]
    pub flaky: bool,
    pub spec: Option<RunSpec>,
    /// builder decision-table case (C18) instead of a run
    #[serde(default)]
    pub build_case: Option<BuildCase>,
    /// engine B: the exact Miri command line
    #[serde(default)]
    pub miri: Option<Vec<String>>,
    /// the run was executed with re-entrant strategy calls switched off (see `stub::NO_NEST`)
    #[serde(default)]
    pub no_nest: bool,
    pub violation: Violation,
}

#[derive(Serialize, Deserialize, Clone, Debug, PartialEq)]
pub struct BuildCase {
    pub label: String,
    pub cfg: SlotCfg,
    /// true: the inputs are valid and the stub's build error must come back unchanged;
    /// false: the inputs are invalid and the stub's build must not be invoked
    pub valid: bool,
    /// the statement does not decide whether these inputs are valid (an axis of one point is
    /// vacuously increasing): only the invariants inside the stub's build are checked, if it runs
    #[serde(default)]
    pub either: bool,
}

#[derive(Serialize, Deserialize, Default, Debug)]
pub struct BlockSummary {
    pub block: u64,
    pub runs: u64,
    pub ops: u64,
    pub steps: u64,
    pub compared: u64,
    pub unbuildable: u64,
    pub lost_control: u64,
    pub counters: std::collections::BTreeMap<String, u64>,
    /// hashes (workload, schedule) of non-trivial runs
    pub nontrivial: Vec<u64>,
    /// distinct schedule traces
    pub traces: Vec<u64>,
    pub samples: Vec<serde_json::Value>,
    pub violations: Vec<RunFile>,
    /// C18: fault plans executed (every call index of the target batch: error, panic)
    pub fault_plans: u64,
    pub build_cases: u64,
}

pub fn run_seed(verif_seed: u64, block: u64, run: u64) -> u64 {
    derive(derive(verif_seed, 0xB10C_0000 ^ block), run)
}

fn nontrivial(spec: &RunSpec, r: &RunResult) -> bool {
    if r.compared < 2 {
        return false;
    }
    if spec.threads.len() >= 2 {
        return true;
    }
    // >= 2 operations on one slot
    let mut per = vec![0usize; spec.slots.len()];
    for t in &spec.threads {
        for o in &t.ops {
            per[o.slot] += 1;
        }
    }
    per.iter().any(|&c| c >= 2)
}

fn explicit(spec: &RunSpec, trace: &[u16]) -> RunSpec {
    let mut s = spec.clone();
    s.sched = Sched::Explicit { choices: trace.to_vec() };
    s.stall = None;
    s
}

fn sample_json(spec: &RunSpec, r: &RunResult, seed: u64) -> serde_json::Value {
    serde_json::json!({
        "run_seed": seed,
        "slots": spec.slots.iter().map(|c| serde_json::json!({"cfg": c.label(), "shape": c.shape, "x": c.axis_x(), "probe_min": c.probe_min})).collect::<Vec<_>>(),
        "threads": spec.threads.iter().map(|t| serde_json::json!({
            "crash_on_fault": t.crash_on_fault,
            "ops": t.ops.iter().map(|o| {
                let q = match &o.call { Call::Array{q}|Call::ArrayInto{q,..} => format!(" q{:?}{:?}={:?}", q.ty, q.shape, q.xs.iter().map(|f| f.0).collect::<Vec<_>>()), Call::Scalar{x,y}|Call::Interp{x,y}|Call::InterpInto{x,y,..}|Call::IndexLeftOf{x,y}|Call::InRange{x,y} => format!(" x={:?} y={:?}", x.0, y.0), Call::IndexPoint{i,j} => format!(" i={i} j={j}"), Call::Cow | Call::PrivBuild | Call::PrivSend | Call::PrivReap => String::new(), Call::PrivQuery{inner} => format!(" inner={}", inner.name()), Call::Repeat{inner,times} => format!(" {} x {}", times, inner.name()), Call::Sibling{strat,x,y} => format!(" {:?} x={:?} y={:?}", strat, x.0, y.0) };
                let b = match &o.call { Call::InterpInto{buf,..}|Call::ArrayInto{buf,..} => format!(" buf{:?}/{:?}{}", buf.shape, buf.lay, if buf.exact {""} else {" (wrong)"}), _ => String::new() };
                format!("s{}.{}{}{}{}", o.slot, o.call.name(), q, b, if o.plan.is_empty() { String::new() } else { format!(" plan={:?}", o.plan) })
            }).collect::<Vec<_>>() })).collect::<Vec<_>>(),
        "sched_policy": match &spec.sched { Sched::Explicit{..} => "Explicit".to_string(), s => format!("{:?}", s) },
        "stall": spec.stall.as_ref().map(|s| format!("{:?}", s)),
        "schedule_trace": r.trace,
        "responses_compared": r.compared,
        "outcome_hash": format!("{:016x}", r.outcome_hash()),
    })
}

pub struct BlockOpts {
    pub log: bool,
    pub stop_first: bool,
    pub samples: usize,
}

fn absorb(sum: &mut BlockSummary, spec: &RunSpec, r: &RunResult, nt: &mut BTreeSet<u64>, tr: &mut BTreeSet<u64>) {
    sum.runs += 1;
    sum.ops += spec.n_ops() as u64;
    sum.steps += r.steps as u64;
    sum.compared += r.compared as u64;
    if r.unbuildable {
        sum.unbuildable += 1;
    }
    if r.lost_control {
        sum.lost_control += 1;
    }
    let mut c = Counters(std::mem::take(&mut sum.counters));
    c.merge(&r.counters);
    sum.counters = c.0;
    if nontrivial(spec, r) {
        let mut h = Fnv::new();
        h.u64(spec.workload_hash());
        h.u64(r.trace_hash());
        nt.insert(h.0);
    }
    if spec.threads.len() >= 2 {
        tr.insert(r.trace_hash());
    }
}

pub fn run_block_c17(verif_seed: u64, block: u64, n_runs: usize, opts: &BlockOpts) -> BlockSummary {
    let mut sum = BlockSummary { block, ..Default::default() };
    let (mut nt, mut tr) = (BTreeSet::new(), BTreeSet::new());
    for run in 0..n_runs as u64 {
        let seed = run_seed(verif_seed, block, run);
        crate::engine::CURRENT_RUN.store(run, std::sync::atomic::Ordering::Relaxed);
        // every 16th run is an exception-safety sweep (element-operation fault at every position of one call)
        // ... and every 16th a thread-affinity scenario (private interpolators that migrate between threads)
        let g = if run % 16 == 5 {
            crate::gen::gen_elem_sweep(seed)
        } else if run % 16 == 11 {
            crate::gen::gen_migration(seed)
        } else if run == 77 {
            // once per block: a volume scenario (the same call hundreds / tens of thousands of times)
            crate::gen::gen_volume(seed)
        } else if run == 134 {
            // once per block: an axis of more than a thousand knots, hot keys clustered
            crate::gen::gen_huge(seed)
        } else {
            gen_run(seed, Mode::C17)
        };
        // every 8th run also checks the in-process pristine instances against brand-new processes
        let ro = RunOpts { fresh_process: run % 8 == 7, ..RunOpts::default() };
        let r = run_spec(&g.spec, Prop::C17, &ro);
        if opts.log {
            println!("RUN {} {:016x} {:016x} {:016x} {}{}", run, g.spec.workload_hash(), r.trace_hash(), r.outcome_hash(), r.compared, if r.lost_control { " LOST-CONTROL" } else { "" });
        }
        absorb(&mut sum, &g.spec, &r, &mut nt, &mut tr);
        if sum.samples.len() < opts.samples && nontrivial(&g.spec, &r) {
            sum.samples.push(sample_json(&g.spec, &r, seed));
        }
        if let Some(v) = r.violations.first() {
            sum.violations.push(RunFile {
                format: "dst-replay v1".into(),
                property: v.property.clone(),
                kind: v.kind.clone(),
                engine: "baton".into(),
                verif_seed,
                block,
                run,
                variant: String::new(),
                prefix_runs: run,
                flaky: r.lost_control,
                spec: Some(explicit(&g.spec, &r.trace)),
                build_case: None,
                miri: None,
                no_nest: stub::NO_NEST.load(std::sync::atomic::Ordering::Relaxed),
                violation: v.clone(),
            });
            if opts.stop_first {
                break;
            }
        }
    }
    // --- once per block, after the runs (so that it cannot disturb them): histories over data with
    // degenerate strides (stride 0, zero-length trailing axes), shipped strategies, every entry point
    if sum.violations.is_empty() || !opts.stop_first {
        let (n, cmp, viol) = crate::degen::degenerate_history_cases();
        let mut c = Counters(std::mem::take(&mut sum.counters));
        c.add("reach.degenerate_stride_interpolators", n);
        c.add("reach.degenerate_stride_responses_compared", cmp);
        sum.counters = c.0;
        if let Some(detail) = viol {
            sum.violations.push(RunFile {
                format: "dst-replay v1".into(),
                property: "C17".into(),
                kind: "result-mismatch".into(),
                engine: "baton".into(),
                verif_seed,
                block,
                run: n_runs as u64,
                variant: "cases:degenerate-histories".into(),
                prefix_runs: 0,
                flaky: false,
                spec: None,
                build_case: None,
                miri: None,
                no_nest: false,
                violation: Violation { property: "C17".into(), kind: "result-mismatch".into(), detail, thread: 0, op: 0, step: 0 },
            });
        }
    }
    sum.nontrivial = nt.into_iter().collect();
    sum.traces = tr.into_iter().collect();
    sum
}

// ---------------------------------------------------------------------------------------------
// C18
// ---------------------------------------------------------------------------------------------

/// builder decision-table rows derived from a valid probe configuration
pub fn build_cases(base: &SlotCfg, r: &mut Rng) -> Vec<BuildCase> {
    let mut out = vec![];
    let mut cfg = base.clone();
    // make the axes explicit so that they can be damaged
    cfg.x = Some(cfg.axis_x().into_iter().map(Fb).collect());
    if cfg.kind.is_2d() {
        cfg.y = Some(cfg.axis_y().into_iter().map(Fb).collect());
    }
    // valid inputs, failing strategy build: the error must reach the caller unchanged
    for variant in 0..4u8 {
        let mut c = cfg.clone();
        c.build_plan = BuildPlan::Fail { variant, token: format!("build-tok-{:08x}", r.next_u64() as u32) };
        out.push(BuildCase { label: format!("valid inputs, strategy build fails with variant {variant}"), cfg: c, valid: true, either: false });
    }
    // also through the default axes
    {
        let mut c = base.clone();
        c.x = None;
        c.y = None;
        c.build_plan = BuildPlan::Fail { variant: (r.below(4)) as u8, token: format!("build-tok-{:08x}", r.next_u64() as u32) };
        if c.storage == Storage::Owned || c.storage == Storage::DataView {
            out.push(BuildCase { label: "valid inputs (default axes), strategy build fails".into(), cfg: c, valid: true, either: false });
        }
    }
    let axes: Vec<bool> = if cfg.kind.is_2d() { vec![false, true] } else { vec![false] };
    for &on_y in &axes {
        let name = if on_y { "y" } else { "x" };
        let get = |c: &SlotCfg| -> Vec<Fb> { if on_y { c.y.clone().unwrap() } else { c.x.clone().unwrap() } };
        let set = |c: &mut SlotCfg, v: Vec<Fb>| {
            if on_y {
                c.y = Some(v)
            } else {
                c.x = Some(v)
            }
        };
        let n = get(&cfg).len();
        for p in 0..n.saturating_sub(1) {
            let mut c = cfg.clone();
            let mut a = get(&c);
            a[p + 1] = a[p];
            set(&mut c, a);
            out.push(BuildCase { label: format!("{name} axis: tie at {p}"), cfg: c, valid: false, either: false });
            let mut c = cfg.clone();
            let mut a = get(&c);
            a.swap(p, p + 1);
            set(&mut c, a);
            out.push(BuildCase { label: format!("{name} axis: swapped pair at {p}"), cfg: c, valid: false, either: false });
        }
        for p in 0..n {
            let mut c = cfg.clone();
            let mut a = get(&c);
            a[p] = Fb(f64::NAN);
            set(&mut c, a);
            out.push(BuildCase { label: format!("{name} axis: NaN at {p}"), cfg: c, valid: false, either: false });
        }
        // a tie made of the two zeros: -0.0 == +0.0, whatever their bit patterns say (in both orders)
        for p in 0..n.saturating_sub(1) {
            for (lo, hi, what) in [(-0.0f64, 0.0f64, "-0.0, +0.0"), (0.0, -0.0, "+0.0, -0.0")] {
                let mut c = cfg.clone();
                let a: Vec<Fb> = (0..n).map(|i| if i == p { Fb(lo) } else if i == p + 1 { Fb(hi) } else { Fb(i as f64 - p as f64) }).collect();
                set(&mut c, a);
                out.push(BuildCase { label: format!("{name} axis: signed-zero tie ({what}) at {p}"), cfg: c, valid: false, either: false });
            }
        }
        {
            let mut c = cfg.clone();
            let mut a = get(&c);
            let last = a[n - 1].0;
            a.push(Fb(last + 1.0));
            set(&mut c, a);
            out.push(BuildCase { label: format!("{name} axis: one element too long"), cfg: c, valid: false, either: false });
            let mut c = cfg.clone();
            let mut a = get(&c);
            a.pop();
            set(&mut c, a);
            out.push(BuildCase { label: format!("{name} axis: one element too short"), cfg: c, valid: false, either: false });
            let mut c = cfg.clone();
            let mut a = get(&c);
            a.reverse();
            set(&mut c, a);
            out.push(BuildCase { label: format!("{name} axis: strictly decreasing"), cfg: c, valid: false, either: false });
        }
        // fewer points than the declared minimum, everything else consistent
        if cfg.probe_min >= 1 {
            let keep = cfg.probe_min - 1;
            let axis_idx = if on_y { 1 } else { 0 };
            let mut c = cfg.clone();
            let old = c.shape.clone();
            let mut a = get(&c);
            a.truncate(keep);
            set(&mut c, a);
            c.shape[axis_idx] = keep;
            // re-slice the data
            let mut data = vec![];
            let total: usize = old.iter().product();
            for flat in 0..total {
                // index along axis_idx
                let inner: usize = old[axis_idx + 1..].iter().product();
                let i = (flat / inner) % old[axis_idx];
                if i < keep {
                    data.push(c.data[flat]);
                }
            }
            c.data = data;
            out.push(BuildCase { label: format!("{name} axis: {keep} points, declared minimum {}", cfg.probe_min), cfg: c, valid: false, either: false });
        }
    }
    // simultaneous violations: the damaged x axis of one row with the damaged y axis (2-D) or the
    // truncated data (fewer points than the declared minimum) of another
    let invalid: Vec<BuildCase> = out.iter().filter(|c| !c.valid).cloned().collect();
    let is_x = |c: &BuildCase| c.label.starts_with("x axis") && !c.label.contains("declared minimum");
    let is_y = |c: &BuildCase| c.label.starts_with("y axis") && !c.label.contains("declared minimum");
    let is_min = |c: &BuildCase| c.label.contains("declared minimum");
    let xs: Vec<&BuildCase> = invalid.iter().filter(|c| is_x(c)).collect();
    let ys: Vec<&BuildCase> = invalid.iter().filter(|c| is_y(c)).collect();
    let mins: Vec<&BuildCase> = invalid.iter().filter(|c| is_min(c)).collect();
    for _ in 0..6 {
        if !xs.is_empty() && !ys.is_empty() && r.chance(1, 2) {
            let (a, b) = (*r.pick(&xs), *r.pick(&ys));
            let mut c = a.cfg.clone();
            c.y = b.cfg.y.clone();
            out.push(BuildCase { label: format!("{} + {}", a.label, b.label), cfg: c, valid: false, either: false });
        } else if !xs.is_empty() && !mins.is_empty() {
            let (a, b) = (*r.pick(&xs), *r.pick(&mins));
            // truncated data of b, damaged x axis of a (the other axis as in b)
            let mut c = b.cfg.clone();
            if b.label.starts_with("y axis") || !cfg.kind.is_2d() {
                c.x = a.cfg.x.clone();
            }
            if !cfg.kind.is_2d() {
                // keep the x damage but not the length fix-up of b
                c.x = a.cfg.x.clone();
            }
            out.push(BuildCase { label: format!("{} + {}", a.label, b.label), cfg: c, valid: false, either: false });
        }
    }
    // very short data: 0 and 1 points along the first axis (interesting for declared minimum 0/1)
    for keep in [0usize, 1] {
        if cfg.shape[0] > keep {
            let mut c = cfg.clone();
            let old = c.shape.clone();
            let inner: usize = old[1..].iter().product();
            c.shape[0] = keep;
            c.data.truncate(keep * inner);
            c.x = Some(c.x.clone().unwrap().into_iter().take(keep).collect());
            let below_min = keep < cfg.probe_min;
            out.push(BuildCase { label: format!("short: {keep} point(s) along x, declared minimum {}", cfg.probe_min), cfg: c, valid: false, either: !below_min });
        }
    }
    if cfg.dimty == DimTy::IxDyn {
        // too few dimensions for the interpolator
        let mut c = cfg.clone();
        c.shape = if cfg.kind.is_2d() { vec![c.shape[0]] } else { vec![] };
        let n: usize = c.shape.iter().product(); // product of no dimensions = 1 element
        c.data.truncate(n);
        out.push(BuildCase { label: "dynamic data with too few dimensions".into(), cfg: c, valid: false, either: false });
    }
    out
}

/// decision-table rows over a long, contiguous, explicitly given axis (same strategy kind and
/// declared minimum as `base`; owned rank-1/2 data so that the rows are cheap)
pub fn long_axis_cases(base: &SlotCfg, r: &mut Rng) -> Vec<BuildCase> {
    let two = base.kind.is_2d();
    let n = r.range(60, 200);
    let m = if two { r.range(2, 4) } else { r.range(1, 2) };
    let step = *r.pick(&[1.0, 0.5, 0.125, 3.0]);
    let x0 = *r.pick(&[0.0, -17.0, 1000.5]);
    let long: Vec<Fb> = (0..n).map(|i| Fb(x0 + i as f64 * step)).collect();
    let short: Vec<Fb> = (0..m).map(|i| Fb(i as f64)).collect();
    // 2-D: the long axis is x or y
    let long_is_y = two && r.chance(1, 2);
    let shape = if two { if long_is_y { vec![m, n] } else { vec![n, m] } } else if m == 1 { vec![n] } else { vec![n, m] };
    let total: usize = shape.iter().product();
    let cfg = SlotCfg {
        kind: base.kind,
        elem: Elem::F64,
        storage: Storage::Owned,
        dimty: if shape.len() == 1 { DimTy::Ix1 } else { DimTy::Ix2 },
        shape,
        x: Some(if long_is_y { short.clone() } else { long.clone() }),
        y: if two { Some(if long_is_y { long.clone() } else { short.clone() }) } else { None },
        data: (0..total).map(|i| Fb((i % 17) as f64 - 8.0)).collect(),
        extrapolate: false,
        bc: Bc::NotAKnot,
        probe_min: base.probe_min,
        build_plan: BuildPlan::Ok,
        data_lay: Lay::C,
        x_lay: Lay::C,
        build_order: 0,
    };
    let name = if long_is_y { "y" } else { "x" };
    let get = |c: &SlotCfg| -> Vec<Fb> { if long_is_y { c.y.clone().unwrap() } else { c.x.clone().unwrap() } };
    let set = |c: &mut SlotCfg, v: Vec<Fb>| {
        if long_is_y {
            c.y = Some(v)
        } else {
            c.x = Some(v)
        }
    };
    let mut out = vec![];
    for p in 0..n - 1 {
        let mut c = cfg.clone();
        let mut a = get(&c);
        a[p + 1] = a[p];
        set(&mut c, a);
        out.push(BuildCase { label: format!("long {name} axis ({n} points): tie at {p}"), cfg: c, valid: false, either: false });
        let mut c = cfg.clone();
        let mut a = get(&c);
        a.swap(p, p + 1);
        set(&mut c, a);
        out.push(BuildCase { label: format!("long {name} axis ({n} points): swapped pair at {p}"), cfg: c, valid: false, either: false });
    }
    for p in 0..n {
        let mut c = cfg.clone();
        let mut a = get(&c);
        a[p] = Fb(f64::NAN);
        set(&mut c, a);
        out.push(BuildCase { label: format!("long {name} axis ({n} points): NaN at {p}"), cfg: c, valid: false, either: false });
    }
    out
}

/// decision-table rows over a huge explicit axis: validation code that works in blocks of a power
/// of two must also look at the pairs that straddle two blocks
pub fn huge_axis_cases(r: &mut Rng) -> Vec<BuildCase> {
    let k = *r.pick(&[10u32, 11, 12, 13]);
    let n = (1usize << k) + r.range(2, 70);
    let two = r.chance(1, 3);
    let m = 3;
    let long: Vec<Fb> = (0..n).map(|i| Fb(-7.0 + i as f64 * 0.5)).collect();
    let short: Vec<Fb> = (0..m).map(|i| Fb(i as f64)).collect();
    let long_is_y = two && r.chance(1, 2);
    let shape = if two { if long_is_y { vec![m, n] } else { vec![n, m] } } else { vec![n] };
    let total: usize = shape.iter().product();
    let cfg = SlotCfg {
        kind: if two { Kind::Probe2 } else { Kind::Probe1 },
        elem: Elem::F64,
        storage: *r.pick(&[Storage::Owned, Storage::Shared, Storage::View]),
        dimty: if two { DimTy::Ix2 } else { DimTy::Ix1 },
        shape,
        x: Some(if long_is_y { short.clone() } else { long.clone() }),
        y: if two { Some(if long_is_y { long.clone() } else { short.clone() }) } else { None },
        data: (0..total).map(|i| Fb((i % 13) as f64)).collect(),
        extrapolate: false,
        bc: Bc::NotAKnot,
        probe_min: 2,
        build_plan: BuildPlan::Ok,
        data_lay: Lay::C,
        x_lay: Lay::C,
        build_order: 0,
    };
    let name = if long_is_y { "y" } else { "x" };
    let get = |c: &SlotCfg| -> Vec<Fb> { if long_is_y { c.y.clone().unwrap() } else { c.x.clone().unwrap() } };
    let set = |c: &mut SlotCfg, v: Vec<Fb>| {
        if long_is_y {
            c.y = Some(v)
        } else {
            c.x = Some(v)
        }
    };
    // positions: the pairs around every power-of-two multiple that fits, the ends, a few random ones
    let mut pos: Vec<usize> = vec![0, n - 2];
    for e in 6..=k {
        let b = 1usize << e;
        // the first three multiples of the block size and the last one that fits
        for q in [b, 2 * b, 3 * b, (n - 1) / b * b] {
            if q == 0 {
                continue;
            }
            for p in [q - 2, q - 1, q] {
                if p + 1 < n {
                    pos.push(p);
                }
            }
        }
    }
    for _ in 0..4 {
        pos.push(r.below(n - 1));
    }
    pos.sort();
    pos.dedup();
    let mut out = vec![BuildCase { label: format!("huge {name} axis ({n} points): valid"), cfg: { let mut c = cfg.clone(); c.build_plan = BuildPlan::Fail { variant: 1, token: "huge-axis-token".into() }; c }, valid: true, either: false }];
    for p in pos {
        let mut c = cfg.clone();
        let mut a = get(&c);
        a[p + 1] = a[p];
        set(&mut c, a);
        out.push(BuildCase { label: format!("huge {name} axis ({n} points): tie at {p}"), cfg: c, valid: false, either: false });
        let mut c = cfg.clone();
        let mut a = get(&c);
        a.swap(p, p + 1);
        set(&mut c, a);
        out.push(BuildCase { label: format!("huge {name} axis ({n} points): swapped pair at {p}"), cfg: c, valid: false, either: false });
        let mut c = cfg.clone();
        let mut a = get(&c);
        a[p + 1] = Fb(f64::NAN);
        set(&mut c, a);
        out.push(BuildCase { label: format!("huge {name} axis ({n} points): NaN at {}", p + 1), cfg: c, valid: false, either: false });
    }
    out
}

/// execute one builder decision-table case; returns a violation description if C18 is broken
pub fn check_build_case(case: &BuildCase) -> Option<(String, String)> {
    let _ = stub::take_build_log();
    let r = build_slot(&case.cfg);
    let log = stub::take_build_log();
    if let Some(v) = log.violations.first() {
        return Some(("build-invariant".into(), format!("{}: {}", case.label, v)));
    }
    if case.valid {
        let BuildPlan::Fail { variant, token } = &case.cfg.build_plan else { return None };
        let want_variant = ["NotEnoughData", "Monotonic", "ShapeError", "ValueError"][(*variant % 4) as usize];
        match r {
            Err(BuildFail::Err(v, t)) => {
                if log.calls == 0 {
                    // rejected before the strategy was asked: nothing to say for C18 (that is C10's business)
                    return None;
                }
                if v != want_variant || &t != token {
                    return Some(("build-error-changed".into(), format!("{}: strategy build returned {want_variant}({token:?}) but build() returned {v}({t:?})", case.label)));
                }
                None
            }
            Ok(_) => {
                if log.calls > 0 {
                    Some(("build-error-swallowed".into(), format!("{}: strategy build returned {want_variant}({token:?}) but build() succeeded", case.label)))
                } else {
                    None
                }
            }
            Err(BuildFail::Panic(p)) => {
                if log.calls > 0 {
                    Some(("build-error-changed".into(), format!("{}: strategy build returned an error but build() panicked: {p}", case.label)))
                } else {
                    None
                }
            }
            Err(BuildFail::Unsupported(_)) => None,
        }
    } else {
        if log.calls > 0 && !case.either {
            return Some(("build-invoked-on-invalid-input".into(), format!("{}: the strategy's build was invoked", case.label)));
        }
        None
    }
}

/// give every planned error a token that names its thread and operation, so that a misrouted
/// error is attributable
fn plan_for(t: usize, i: usize, k: usize, panic: bool) -> Vec<Act> {
    let mut p = vec![Act::Ok; k];
    p.push(if panic { Act::Panic } else { Act::Err(token_for(t, i, k)) });
    p
}

/// error payloads a user strategy might return: "unchanged" must hold for unusual contents too
/// (empty, long, braces as in format strings, quotes, newlines, NUL, non-ASCII, leading/trailing
/// blanks, the shipped strategies' own wording)
pub fn token_for(t: usize, i: usize, k: usize) -> String {
    let base = format!("tok-t{t}-o{i}-k{k}");
    match (t * 31 + i * 7 + k) % 9 {
        0 => String::new(),
        1 => format!("{base} {}", "x".repeat(300)),
        2 => format!("{base} {{}} {{0}} {{:?}} %s %d"),
        3 => format!("{base} \"quoted\" 'single' \\ back\\slash"),
        4 => format!("{base}\nsecond line\r\n\ttabbed\0after-nul"),
        5 => format!("{base} \u{e4}\u{f6}\u{fc} \u{4e2d}\u{6587} \u{1f600}"),
        6 => format!("  {base}  "),
        // worded like the shipped strategies' own out-of-range errors (a strategy written from
        // linear.rs as a template): still the strategy's error, still to be handed on as it is
        7 => format!("{base}: x = {k}.5 is not in range"),
        _ => base,
    }
}

pub fn run_block_c18(verif_seed: u64, block: u64, n_bases: usize, opts: &BlockOpts) -> BlockSummary {
    let mut sum = BlockSummary { block, ..Default::default() };
    let (mut nt, mut tr) = (BTreeSet::new(), BTreeSet::new());

    let mut record = |sum: &mut BlockSummary, spec: &RunSpec, r: &RunResult, run: u64, variant: &str, seed: u64, nt: &mut BTreeSet<u64>, tr: &mut BTreeSet<u64>| -> bool {
        if opts.log {
            println!("RUN {} {} {:016x} {:016x} {:016x} {}{}", run, variant, spec.workload_hash(), r.trace_hash(), r.outcome_hash(), r.compared, if r.lost_control { " LOST-CONTROL" } else { "" });
        }
        absorb(sum, spec, r, nt, tr);
        if sum.samples.len() < opts.samples && nontrivial(spec, r) && (variant != "base" || sum.samples.is_empty()) {
            let mut s = sample_json(spec, r, seed);
            s["variant"] = serde_json::Value::String(variant.to_string());
            sum.samples.push(s);
        }
        if let Some(v) = r.violations.first() {
            sum.violations.push(RunFile {
                format: "dst-replay v1".into(),
                property: v.property.clone(),
                kind: v.kind.clone(),
                engine: "baton".into(),
                verif_seed,
                block,
                run,
                variant: variant.to_string(),
                prefix_runs: 0,
                flaky: r.lost_control,
                spec: Some(explicit(spec, &r.trace)),
                build_case: None,
                miri: None,
                no_nest: stub::NO_NEST.load(std::sync::atomic::Ordering::Relaxed),
                violation: v.clone(),
            });
            return true;
        }
        false
    };
    // --- once per block: builder cases over element types other than f64 -----------------------
    {
        let (n, viol) = stub::element_type_build_cases();
        sum.build_cases += n;
        let mut c = Counters(std::mem::take(&mut sum.counters));
        c.add("build.element_type_cases", n);
        sum.counters = c.0;
        if let Some((label, detail)) = viol {
            sum.violations.push(RunFile {
                format: "dst-replay v1".into(),
                property: "C18".into(),
                kind: "build-invariant".into(),
                engine: "baton".into(),
                verif_seed,
                block,
                run: 0,
                variant: "build:element-types".into(),
                prefix_runs: 0,
                flaky: false,
                spec: None,
                build_case: None,
                miri: None,
                no_nest: false,
                violation: Violation { property: "C18".into(), kind: "build-invariant".into(), detail: format!("{label}: {detail}"), thread: 0, op: 0, step: 0 },
            });
        }
    }
    // --- once per block: accessors and targets over data with degenerate strides ----------------
    {
        let (n, viol) = crate::degen::degenerate_stride_cases();
        let mut c = Counters(std::mem::take(&mut sum.counters));
        c.add("accessor.degenerate_stride_cases", n);
        c.add("accessor.degenerate_stride_callbacks", crate::degen::callbacks());
        sum.counters = c.0;
        if let Some(detail) = viol {
            sum.violations.push(RunFile {
                format: "dst-replay v1".into(),
                property: "C18".into(),
                kind: crate::degen::kind_of(&detail).into(),
                engine: "baton".into(),
                verif_seed,
                block,
                run: 0,
                variant: "cases:degenerate-strides".into(),
                prefix_runs: 0,
                flaky: false,
                spec: None,
                build_case: None,
                miri: None,
                no_nest: false,
                violation: Violation { property: "C18".into(), kind: crate::degen::kind_of(&detail).into(), detail, thread: 0, op: 0, step: 0 },
            });
        }
    }
    // --- once per block: a HUGE explicit axis (just above a power of two between 2^10 and 2^13),
    // damaged at the seams of power-of-two blocks and at a few random positions
    {
        let mut rr = Rng::new(derive(run_seed(verif_seed ^ 0xC18, block, 0), 0x4065));
        for case in huge_axis_cases(&mut rr) {
            sum.build_cases += 1;
            let mut c = Counters(std::mem::take(&mut sum.counters));
            c.add("build.huge_axis_cases", 1);
            sum.counters = c.0;
            if let Some((kind, detail)) = check_build_case(&case) {
                sum.violations.push(RunFile {
                    format: "dst-replay v1".into(),
                    property: "C18".into(),
                    kind: kind.clone(),
                    engine: "baton".into(),
                    verif_seed,
                    block,
                    run: 0,
                    variant: format!("build:{}", case.label),
                    prefix_runs: 0,
                    flaky: false,
                    spec: None,
                    build_case: Some(case.clone()),
                    miri: None,
                    no_nest: false,
                    violation: Violation { property: "C18".into(), kind, detail, thread: 0, op: 0, step: 0 },
                });
                break;
            }
        }
    }
    'bases: for run in 0..n_bases as u64 {
        let seed = run_seed(verif_seed ^ 0xC18, block, run);
        crate::engine::CURRENT_RUN.store(run, std::sync::atomic::Ordering::Relaxed);
        let g = gen_run(seed, Mode::C18);
        let mut r = Rng::new(derive(seed, 77));
        // --- base run: no faults -----------------------------------------------------------
        let res = run_spec(&g.spec, Prop::C18, &RunOpts::default());
        if record(&mut sum, &g.spec, &res, run, "base", seed, &mut nt, &mut tr) && opts.stop_first {
            break 'bases;
        }
        // --- exhaustive single-fault plans on one batch operation ---------------------------
        let mut cands: Vec<(usize, usize)> = vec![];
        for (t, th) in g.spec.threads.iter().enumerate() {
            for (i, op) in th.ops.iter().enumerate() {
                if op.call.batch_len() >= 1 {
                    cands.push((t, i));
                }
            }
        }
        if !cands.is_empty() {
            // prefer a real batch
            let batches: Vec<(usize, usize)> = cands.iter().copied().filter(|&(t, i)| g.spec.threads[t].ops[i].call.batch_len() >= 2).collect();
            let (t, i) = if !batches.is_empty() && r.chance(4, 5) { *r.pick(&batches) } else { *r.pick(&cands) };
            let m = g.spec.threads[t].ops[i].call.batch_len();
            // every callback index of the batch; for the rare large batches a sample of them
            // (both ends, the middle, multiples of small powers of two +-1, a few random ones)
            let ks: Vec<usize> = if m <= 16 {
                (0..m).collect()
            } else {
                let mut v = vec![0, 1, m - 2, m - 1, m / 2, m / 4, 3 * m / 4, 31.min(m - 1), 32.min(m - 1), 63.min(m - 1), 64.min(m - 1), 127.min(m - 1), 128.min(m - 1)];
                for _ in 0..4 {
                    v.push(r.below(m));
                }
                v.sort();
                v.dedup();
                v
            };
            for panic in [false, true] {
                for &k in &ks {
                    let mut spec = g.spec.clone();
                    spec.threads[t].ops[i].plan = plan_for(t, i, k, panic);
                    let res = run_spec(&spec, Prop::C18, &RunOpts::default());
                    sum.fault_plans += 1;
                    let variant = format!("{}@t{t}.o{i}.k{k}", if panic { "panic" } else { "err" });
                    if record(&mut sum, &spec, &res, run, &variant, seed, &mut nt, &mut tr) && opts.stop_first {
                        break 'bases;
                    }
                }
            }
            // --- re-entrancy at every callback index: callback k calls back into the interpolator
            for &k in &ks {
                let mut spec = g.spec.clone();
                let slot = spec.threads[t].ops[i].slot;
                let mut plan = vec![Act::Ok; k];
                plan.push(crate::gen::gen_nest_for(&mut r, &spec.slots[slot], Mode::C18));
                spec.threads[t].ops[i].plan = plan;
                let res = run_spec(&spec, Prop::C18, &RunOpts::default());
                sum.fault_plans += 1;
                let variant = format!("nest@t{t}.o{i}.k{k}");
                if record(&mut sum, &spec, &res, run, &variant, seed, &mut nt, &mut tr) && opts.stop_first {
                    break 'bases;
                }
            }
            // --- random multi-fault plan: several operations of several threads fail ---------
            let mut spec = g.spec.clone();
            let slot_cfgs = spec.slots.clone();
            for (t, th) in spec.threads.iter_mut().enumerate() {
                for (i, op) in th.ops.iter_mut().enumerate() {
                    let m = op.call.batch_len();
                    if m >= 1 && r.chance(1, 3) {
                        let k = r.below(m);
                        op.plan = plan_for(t, i, k, r.chance(1, 4));
                        if r.chance(1, 4) {
                            // ... or calls back into the interpolator instead of failing
                            let last = op.plan.len() - 1;
                            op.plan[last] = crate::gen::gen_nest_for(&mut r, &slot_cfgs[op.slot], Mode::C18);
                        }
                        // a second failure later in the same batch
                        if k + 1 < m && r.chance(1, 3) {
                            let k2 = r.range(k + 1, m - 1);
                            while op.plan.len() < k2 {
                                op.plan.push(Act::Ok);
                            }
                            op.plan.push(Act::Err(token_for(t, i, k2 + 100)));
                        }
                    }
                }
            }
            let res = run_spec(&spec, Prop::C18, &RunOpts::default());
            sum.fault_plans += 1;
            if record(&mut sum, &spec, &res, run, "multi", seed, &mut nt, &mut tr) && opts.stop_first {
                break 'bases;
            }
        }
        // --- builder decision table for the first slot; for every 6th base scenario also for a
        // LONG explicit axis (60-200 points: validation code may work in blocks), with a tie, a
        // swapped pair and a NaN at every position
        let mut cases = build_cases(&g.spec.slots[0], &mut r);
        if run % 6 == 1 {
            cases.extend(long_axis_cases(&g.spec.slots[0], &mut r));
        }
        for case in cases {
            sum.build_cases += 1;
            let mut c = Counters(std::mem::take(&mut sum.counters));
            c.add(if case.valid { "build.valid_inputs_failing_strategy" } else { "build.invalid_inputs" }, 1);
            sum.counters = c.0;
            if let Some((kind, detail)) = check_build_case(&case) {
                sum.violations.push(RunFile {
                    format: "dst-replay v1".into(),
                    property: "C18".into(),
                    kind: kind.clone(),
                    engine: "baton".into(),
                    verif_seed,
                    block,
                    run,
                    variant: format!("build:{}", case.label),
                    prefix_runs: 0,
                    flaky: false,
                    spec: None,
                    build_case: Some(case.clone()),
                    miri: None,
                    no_nest: stub::NO_NEST.load(std::sync::atomic::Ordering::Relaxed),
                    violation: Violation { property: "C18".into(), kind, detail, thread: 0, op: 0, step: 0 },
                });
                if opts.stop_first {
                    break 'bases;
                }
            }
        }
    }
    sum.nontrivial = nt.into_iter().collect();
    sum.traces = tr.into_iter().collect();
    sum
}

//! dst — deterministic simulation harness for ndarray-interp (properties C17, C18).
//!
//!   dst block --prop C17|C18 --seed S --block B [--runs N] [--log] [--keep-going]
//!   dst replay <file> [--quiet]
//!   dst minimize <file> <out>
//!   dst miri --seed S --index I            (engine B workload; meant to run under `cargo miri run`)
//!   dst selfcheck                           (instantiation matrix builds)


use std::process::exit;

use crate::block::{self, BlockOpts, RunFile};
use crate::engine::{self, run_spec, Prop, RunOpts};
use crate::{gen, minimize, miri_mode, rng, slots, types};

fn arg_val(args: &[String], name: &str) -> Option<String> {
    args.iter().position(|a| a == name).and_then(|i| args.get(i + 1).cloned())
}

fn parse_u64(s: &str) -> u64 {
    if let Some(h) = s.strip_prefix("0x") {
        u64::from_str_radix(h, 16).expect("bad hex integer")
    } else {
        s.parse::<u64>().expect("bad integer")
    }
}

/// exit codes: 0 = no violation, 1 = violation (details on stdout), 2 = harness error
pub fn main() {
    let args: Vec<String> = std::env::args().collect();
    if args.len() < 2 {
        eprintln!("usage: dst <block|replay|minimize|miri|selfcheck> ...");
        exit(2);
    }
    // documented panics and stub panics are part of the workload: keep stderr quiet
    if std::env::var_os("DST_LOUD_PANICS").is_none() {
        std::panic::set_hook(Box::new(|_| {}));
    }
    if args.iter().any(|a| a == "--no-nest") {
        crate::stub::NO_NEST.store(true, std::sync::atomic::Ordering::Relaxed);
    }
    if matches!(args[1].as_str(), "block" | "replay" | "rerecord" | "ref") {
        crate::watch::start();
        // single-threaded phases and the baton: callbacks on library worker threads are attributable
        crate::stub::FOREIGN_ATTRIB.store(true, std::sync::atomic::Ordering::Relaxed);
    }
    match args[1].as_str() {
        "block" => {
            let prop = arg_val(&args, "--prop").unwrap_or_else(|| "C17".into());
            let seed = parse_u64(&arg_val(&args, "--seed").expect("--seed"));
            let blk = parse_u64(&arg_val(&args, "--block").expect("--block"));
            let opts = BlockOpts { log: args.iter().any(|a| a == "--log"), stop_first: !args.iter().any(|a| a == "--keep-going"), samples: 2 };
            let sum = match prop.as_str() {
                "C17" => {
                    let n = arg_val(&args, "--runs").map(|s| parse_u64(&s) as usize).unwrap_or(block::RUNS_PER_BLOCK_C17);
                    block::run_block_c17(seed, blk, n, &opts)
                }
                "C18" => {
                    let n = arg_val(&args, "--runs").map(|s| parse_u64(&s) as usize).unwrap_or(block::BASES_PER_BLOCK_C18);
                    block::run_block_c18(seed, blk, n, &opts)
                }
                _ => {
                    eprintln!("unknown property {prop}");
                    exit(2)
                }
            };
            println!("SUMMARY {}", serde_json::to_string(&sum).unwrap());
            exit(if sum.violations.is_empty() { 0 } else { 1 });
        }
        "replay" => {
            let path = args.get(2).expect("replay <file>");
            let quiet = args.iter().any(|a| a == "--quiet");
            let text = std::fs::read_to_string(path).unwrap_or_else(|e| {
                eprintln!("cannot read {path}: {e}");
                exit(2)
            });
            let rf: RunFile = serde_json::from_str(&text).unwrap_or_else(|e| {
                eprintln!("cannot parse {path}: {e}");
                exit(2)
            });
            match replay(&rf) {
                Some(v) => {
                    if !quiet {
                        println!("REPRODUCED property={} kind={} thread={} op={} step={}", v.property, v.kind, v.thread as i64, v.op, v.step);
                        println!("  {}", v.detail);
                    } else {
                        println!("REPRODUCED {}", serde_json::to_string(&v).unwrap());
                    }
                    exit(1);
                }
                None => {
                    println!("NOT-REPRODUCED (no violation when re-executing {path})");
                    exit(0);
                }
            }
        }
        "rerecord" => {
            // replay and, if the violation reproduces, write the file again with the exact
            // schedule trace and violation record observed now
            let path = args.get(2).expect("rerecord <file> <out>");
            let out = args.get(3).expect("rerecord <file> <out>");
            let text = std::fs::read_to_string(path).unwrap_or_else(|e| {
                eprintln!("cannot read {path}: {e}");
                exit(2)
            });
            let mut rf: RunFile = serde_json::from_str(&text).unwrap_or_else(|e| {
                eprintln!("cannot parse {path}: {e}");
                exit(2)
            });
            let (v, trace) = replay_full(&rf);
            match v {
                Some(v) => {
                    if let (Some(spec), Some(tr)) = (rf.spec.as_mut(), trace) {
                        spec.sched = types::Sched::Explicit { choices: tr };
                        spec.stall = None;
                    }
                    rf.kind = v.kind.clone();
                    rf.violation = v;
                    std::fs::write(out, serde_json::to_string_pretty(&rf).unwrap()).expect("write replay file");
                    exit(1)
                }
                None => exit(0),
            }
        }
        "minimize" => {
            let path = args.get(2).expect("minimize <file> <out>");
            let out = args.get(3).expect("minimize <file> <out>");
            exit(minimize::minimize_file(path, out));
        }
        "miri" => {
            let seed = parse_u64(&arg_val(&args, "--seed").expect("--seed"));
            let index = parse_u64(&arg_val(&args, "--index").expect("--index"));
            exit(miri_mode::run(seed, index, args.iter().any(|a| a == "--dump-only"), args.iter().any(|a| a == "--c18")));
        }
        "miri-spec" => exit(miri_mode::run_json(args.get(2).expect("miri-spec <json>"))),
        "ref" => {
            // fresh-process reference: spec on stdin, outcomes of one slot's operations on stdout
            let slot: usize = args.get(2).and_then(|s| s.parse().ok()).expect("ref <slot>");
            let mut text = String::new();
            std::io::Read::read_to_string(&mut std::io::stdin(), &mut text).expect("stdin");
            let spec: types::RunSpec = serde_json::from_str(&text).unwrap_or_else(|e| {
                eprintln!("ref: cannot parse spec: {e}");
                exit(2)
            });
            println!("{}", serde_json::to_string(&engine::ref_child(&spec, slot)).unwrap());
            exit(0)
        }
        #[cfg(feature = "engine_c")]
        "shuttle" | "shuttle-spec" => {
            // dst shuttle --seed S --index I --iters N [--c18] [--pct D] [--persist DIR] [--replay FILE] [--dump-only]
            // dst shuttle-spec <json> --seed S --iters N ...            (minimisation candidates)
            use crate::shuttle_mode::{self, Mode};
            let seed = parse_u64(&arg_val(&args, "--seed").expect("--seed"));
            let iters = arg_val(&args, "--iters").map(|s| parse_u64(&s) as usize).unwrap_or(1000);
            let c18 = args.iter().any(|a| a == "--c18");
            let (spec, index) = if args[1] == "shuttle-spec" {
                let json = args.get(2).expect("shuttle-spec <json>");
                (serde_json::from_str::<types::RunSpec>(json).unwrap_or_else(|e| {
                    eprintln!("shuttle-spec: cannot parse workload: {e}");
                    exit(2)
                }), 0)
            } else {
                let index = parse_u64(&arg_val(&args, "--index").expect("--index"));
                (shuttle_mode::workload(seed, index, c18), index)
            };
            if args.iter().any(|a| a == "--dump-only") {
                println!("{}", serde_json::to_string(&spec).unwrap());
                exit(0);
            }
            let mode = if let Some(f) = arg_val(&args, "--replay") {
                Mode::Replay(f)
            } else if let Some(d) = arg_val(&args, "--pct") {
                Mode::Pct(parse_u64(&d) as usize)
            } else {
                Mode::Random
            };
            exit(shuttle_mode::run(spec, c18, rng::derive(rng::derive(seed, 0x5C4E_D01E), index), iters, mode, arg_val(&args, "--persist")));
        }
        "selfcheck" => exit(selfcheck()),
        other => {
            eprintln!("unknown command {other}");
            exit(2);
        }
    }
}

/// re-execute a replay file; returns the violation found (same property) if any
pub fn replay(rf: &RunFile) -> Option<engine::Violation> {
    replay_full(rf).0
}

pub fn replay_full(rf: &RunFile) -> (Option<engine::Violation>, Option<Vec<u16>>) {
    let prop = if rf.property == "C18" { Prop::C18 } else { Prop::C17 };
    if let Some(case) = &rf.build_case {
        return (block::check_build_case(case).map(|(kind, detail)| engine::Violation { property: "C18".into(), kind, detail, thread: 0, op: 0, step: 0 }), None);
    }
    if rf.variant == "build:element-types" {
        let (_, v) = crate::stub::element_type_build_cases();
        return (v.map(|(label, detail)| engine::Violation { property: "C18".into(), kind: "build-invariant".into(), detail: format!("{label}: {detail}"), thread: 0, op: 0, step: 0 }), None);
    }
    if rf.variant == "cases:degenerate-histories" {
        let (_, _, v) = crate::degen::degenerate_history_cases();
        return (v.map(|detail| engine::Violation { property: "C17".into(), kind: "result-mismatch".into(), detail, thread: 0, op: 0, step: 0 }), None);
    }
    if rf.variant == "cases:degenerate-strides" {
        let (_, v) = crate::degen::degenerate_stride_cases();
        return (v.map(|detail| engine::Violation { property: "C18".into(), kind: crate::degen::kind_of(&detail).into(), detail, thread: 0, op: 0, step: 0 }), None);
    }
    let Some(spec) = rf.spec.as_ref() else { return (None, None) };
    if rf.no_nest {
        crate::stub::NO_NEST.store(true, std::sync::atomic::Ordering::Relaxed);
    }
    // process-global state: re-execute the earlier runs of the block first
    if rf.prefix_runs > 0 && prop == Prop::C17 {
        for run in 0..rf.prefix_runs.min(rf.run) {
            let seed = block::run_seed(rf.verif_seed, rf.block, run);
            let g = if run % 16 == 5 {
                gen::gen_elem_sweep(seed)
            } else if run % 16 == 11 {
                gen::gen_migration(seed)
            } else if run == 77 {
                gen::gen_volume(seed)
            } else if run == 134 {
                gen::gen_huge(seed)
            } else {
                gen::gen_run(seed, gen::Mode::C17)
            };
            let _ = run_spec(&g.spec, Prop::C17, &RunOpts::default());
        }
    }
    let ro = RunOpts { fresh_process: rf.kind.starts_with("process-history"), ..RunOpts::default() };
    let r = run_spec(spec, prop, &ro);
    let trace = r.trace.clone();
    (r.violations.into_iter().find(|v| v.property == rf.property), Some(trace))
}

fn selfcheck() -> i32 {
    use types::*;
    let mut bad = 0;
    let mut n = 0;
    for kind in [Kind::Linear, Kind::Spline, Kind::Probe1, Kind::Bilinear, Kind::Probe2] {
        for elem in [Elem::F64, Elem::F32, Elem::Yf, Elem::I64] {
            for storage in [Storage::Owned, Storage::View, Storage::Shared, Storage::DataView] {
                for dimty in [DimTy::Ix1, DimTy::Ix2, DimTy::Ix3, DimTy::Ix4, DimTy::Ix5, DimTy::IxDyn] {
                    for min in 0..5 {
                        if !slots::supported(kind, elem, storage, dimty, min) {
                            continue;
                        }
                        // draw configurations until one of this cell appears
                        let mut r = rng::Rng::new(1);
                        let mode = if kind.is_probe() { gen::Mode::C18 } else { gen::Mode::C17 };
                        let mut found = false;
                        for _ in 0..200_000 {
                            let c = gen::gen_slot(&mut r, mode);
                            if c.kind == kind && c.elem == elem && c.storage == storage && c.dimty == dimty && (!kind.is_probe() || c.probe_min == min) {
                                n += 1;
                                found = true;
                                if let Err(e) = slots::build_slot(&c) {
                                    println!("FAIL {}: {:?}", c.label(), e);
                                    bad += 1;
                                }
                                break;
                            }
                        }
                        if !found && min == 0 {
                            println!("NOT GENERATED {:?} {:?} {:?} {:?}", kind, elem, storage, dimty);
                        }
                        if !kind.is_probe() {
                            break;
                        }
                    }
                }
            }
        }
    }
    println!("selfcheck: {n} cells built, {bad} failures");
    if bad == 0 {
        0
    } else {
        2
    }
}

//! C18, accessor clause over data with DEGENERATE STRIDES: arrays whose stride along an
//! interpolated or trailing axis is 0 (a row broadcast along axis 0, a column broadcast along a
//! trailing axis, owned arrays with a zero-length trailing axis - ndarray gives those all-zero
//! strides) and axes of length 1 with arbitrary strides. These are legal inputs that the seeded
//! slot generator cannot express (its layouts are windows of an allocation holding every element
//! once), so they are a table of their own, run once per C18 block.
//!
//! The strategy here is a self-contained recorder: `build` keeps an owned copy of what it was
//! given, every `interp_into` compares `index_point(i)` for every i (ascending, descending,
//! alternating ends) with that copy, checks the target shape and the closed-range test, and
//! writes the query value into every lane so that the caller can check delivery.

use ndarray::{Array, Array1, ArrayBase, ArrayD, ArrayViewMut, Axis, Data, Dimension, Ix1, IxDyn, RemoveAxis};
use ndarray_interp::interp1d::{Interp1D, Interp1DBuilder, Interp1DStrategy, Interp1DStrategyBuilder};
use ndarray_interp::interp2d::{Interp2D, Interp2DBuilder, Interp2DStrategy, Interp2DStrategyBuilder};
use ndarray_interp::{BuilderError, InterpolateError};
use std::cell::RefCell;
use std::panic::{catch_unwind, AssertUnwindSafe};

thread_local! {
    static NOTES: RefCell<Vec<String>> = const { RefCell::new(Vec::new()) };
    static CALLS: std::cell::Cell<u64> = const { std::cell::Cell::new(0) };
}

fn note(s: String) {
    NOTES.with(|n| {
        let mut n = n.borrow_mut();
        if n.len() < 8 {
            n.push(s);
        }
    });
}

fn panic_text(p: Box<dyn std::any::Any + Send>) -> String {
    p.downcast_ref::<String>().cloned().or_else(|| p.downcast_ref::<&str>().map(|s| s.to_string())).unwrap_or_else(|| "<non-string panic>".into())
}

/// visiting orders for the indices 0..n: ascending, descending, alternating ends
fn orders(n: usize) -> Vec<usize> {
    let mut v: Vec<usize> = (0..n).collect();
    v.extend((0..n).rev());
    for k in 0..n {
        v.push(if k % 2 == 0 { k / 2 } else { n - 1 - k / 2 });
    }
    v
}

/// what a strategy's `build` may rely on (declared minimum of `Rec`: 2 points)
fn check_build_axis(name: &str, axis: &[f64], data_len: Option<usize>) {
    if axis.windows(2).any(|w| !(w[0] < w[1])) {
        note(format!("the strategy's build was invoked with a {name} axis that is not strictly increasing: {axis:?}"));
    }
    if data_len != Some(axis.len()) {
        note(format!("the strategy's build was invoked with a {name} axis of length {} for a data axis of length {data_len:?}", axis.len()));
    }
    if axis.len() < 2 {
        note(format!("the strategy's build was invoked with {} points on the {name} axis, below its declared minimum 2", axis.len()));
    }
}

/// builder cases: inputs that must NOT reach the strategy's build (what build() returns for them
/// is not C18's business); the verdict is whatever `check_build_axis` noted
fn probe_build1<Sd, Sx, D>(label: &str, data: ArrayBase<Sd, D>, x: ArrayBase<Sx, Ix1>) -> Option<String>
where
    Sd: Data<Elem = f64>,
    Sx: Data<Elem = f64>,
    D: Dimension + RemoveAxis,
{
    NOTES.with(|n| n.borrow_mut().clear());
    let _ = catch_unwind(AssertUnwindSafe(|| Interp1DBuilder::new(data).x(x).strategy(Rec).build().map(|_| ())));
    NOTES.with(|n| n.borrow().first().cloned()).map(|n| format!("{label}: {n}"))
}

fn probe_build2<Sd, Sx, Sy, D>(label: &str, data: ArrayBase<Sd, D>, x: ArrayBase<Sx, Ix1>, y: ArrayBase<Sy, Ix1>) -> Option<String>
where
    Sd: Data<Elem = f64>,
    Sx: Data<Elem = f64>,
    Sy: Data<Elem = f64>,
    D: Dimension + RemoveAxis,
    D::Smaller: RemoveAxis,
{
    NOTES.with(|n| n.borrow_mut().clear());
    let _ = catch_unwind(AssertUnwindSafe(|| Interp2DBuilder::new(data).x(x).y(y).strategy(Rec).build().map(|_| ())));
    NOTES.with(|n| n.borrow().first().cloned()).map(|n| format!("{label}: {n}"))
}

pub struct Rec;
pub struct Rec1<D: Dimension> {
    xs: Vec<f64>,
    data: Array<f64, D>,
}
pub struct Rec2<D: Dimension> {
    xs: Vec<f64>,
    ys: Vec<f64>,
    data: Array<f64, D>,
}

impl<Sd, Sx, D> Interp1DStrategyBuilder<Sd, Sx, D> for Rec
where
    Sd: Data<Elem = f64>,
    Sx: Data<Elem = f64>,
    D: Dimension + RemoveAxis,
{
    const MINIMUM_DATA_LENGHT: usize = 2;
    type FinishedStrat = Rec1<D>;
    fn build<Sx2>(self, x: &ArrayBase<Sx2, Ix1>, data: &ArrayBase<Sd, D>) -> Result<Rec1<D>, BuilderError>
    where
        Sx2: Data<Elem = f64>,
    {
        let xs: Vec<f64> = x.iter().copied().collect();
        check_build_axis("x", &xs, data.shape().first().copied());
        Ok(Rec1 { xs, data: data.to_owned() })
    }
}

impl<Sd, Sx, D> Interp1DStrategy<Sd, Sx, D> for Rec1<D>
where
    Sd: Data<Elem = f64>,
    Sx: Data<Elem = f64>,
    D: Dimension + RemoveAxis,
{
    fn interp_into(&self, it: &Interp1D<Sd, Sx, D, Self>, mut target: ArrayViewMut<'_, f64, D::Smaller>, x: f64) -> Result<(), InterpolateError> {
        CALLS.with(|c| c.set(c.get() + 1));
        if target.shape() != &self.data.shape()[1..] {
            note(format!("target shape {:?} is not the data shape {:?} minus the interpolated axis", target.shape(), self.data.shape()));
        }
        for i in orders(self.xs.len()) {
            match catch_unwind(AssertUnwindSafe(|| {
                let (xi, row) = it.index_point(i);
                let want = self.data.index_axis(Axis(0), i);
                (xi.to_bits() == self.xs[i].to_bits(), row.shape() == want.shape() && row.iter().map(|v| v.to_bits()).eq(want.iter().map(|v| v.to_bits())))
            })) {
                Ok((true, true)) => {}
                Ok((false, _)) => note(format!("index_point({i}).0 != axis[{i}]")),
                Ok((_, false)) => note(format!("index_point({i}).1 != data[{i}]")),
                Err(p) => note(format!("index_point({i}) panicked for a legal index: {}", panic_text(p))),
            }
        }
        let (lo, hi) = (self.xs[0], self.xs[self.xs.len() - 1]);
        for p in [x, lo, hi, lo - 1.0, hi + 1.0] {
            if it.is_in_range(p) != (lo <= p && p <= hi) {
                note(format!("is_in_range({p:?}) is not the closed-range test"));
            }
        }
        target.fill(x);
        Ok(())
    }
}

impl<Sd, Sx, Sy, D> Interp2DStrategyBuilder<Sd, Sx, Sy, D> for Rec
where
    Sd: Data<Elem = f64>,
    Sx: Data<Elem = f64>,
    Sy: Data<Elem = f64>,
    D: Dimension + RemoveAxis,
    D::Smaller: RemoveAxis,
{
    const MINIMUM_DATA_LENGHT: usize = 2;
    type FinishedStrat = Rec2<D>;
    fn build(self, x: &ArrayBase<Sx, Ix1>, y: &ArrayBase<Sy, Ix1>, data: &ArrayBase<Sd, D>) -> Result<Rec2<D>, BuilderError> {
        let xs: Vec<f64> = x.iter().copied().collect();
        let ys: Vec<f64> = y.iter().copied().collect();
        check_build_axis("x", &xs, data.shape().first().copied());
        check_build_axis("y", &ys, data.shape().get(1).copied());
        Ok(Rec2 { xs, ys, data: data.to_owned() })
    }
}

impl<Sd, Sx, Sy, D> Interp2DStrategy<Sd, Sx, Sy, D> for Rec2<D>
where
    Sd: Data<Elem = f64>,
    Sx: Data<Elem = f64>,
    Sy: Data<Elem = f64>,
    D: Dimension + RemoveAxis,
    D::Smaller: RemoveAxis,
{
    fn interp_into(&self, it: &Interp2D<Sd, Sx, Sy, D, Self>, mut target: ArrayViewMut<'_, f64, <D::Smaller as Dimension>::Smaller>, x: f64, y: f64) -> Result<(), InterpolateError> {
        CALLS.with(|c| c.set(c.get() + 1));
        if target.shape() != &self.data.shape()[2..] {
            note(format!("target shape {:?} is not the data shape {:?} minus the interpolated axes", target.shape(), self.data.shape()));
        }
        for i in orders(self.xs.len()) {
            for j in orders(self.ys.len()) {
                match catch_unwind(AssertUnwindSafe(|| {
                    let (xi, yj, cell) = it.index_point(i, j);
                    let want = self.data.index_axis(Axis(0), i);
                    let want = want.index_axis(Axis(0), j);
                    (
                        xi.to_bits() == self.xs[i].to_bits() && yj.to_bits() == self.ys[j].to_bits(),
                        cell.shape() == want.shape() && cell.iter().map(|v| v.to_bits()).eq(want.iter().map(|v| v.to_bits())),
                    )
                })) {
                    Ok((true, true)) => {}
                    Ok((false, _)) => note(format!("index_point({i},{j}) axis values differ")),
                    Ok((_, false)) => note(format!("index_point({i},{j}).2 != data[{i},{j}]")),
                    Err(p) => note(format!("index_point({i},{j}) panicked for legal indices: {}", panic_text(p))),
                }
            }
        }
        let (lo, hi) = (self.xs[0], self.xs[self.xs.len() - 1]);
        for p in [x, lo, hi, lo - 1.0, hi + 1.0] {
            if it.is_in_x_range(p) != (lo <= p && p <= hi) {
                note(format!("is_in_x_range({p:?}) is not the closed-range test"));
            }
        }
        let (lo, hi) = (self.ys[0], self.ys[self.ys.len() - 1]);
        for p in [y, lo, hi, lo - 1.0, hi + 1.0] {
            if it.is_in_y_range(p) != (lo <= p && p <= hi) {
                note(format!("is_in_y_range({p:?}) is not the closed-range test"));
            }
        }
        target.fill(x * 1000.0 + y);
        Ok(())
    }
}

/// drive one 1-D interpolator through interp, interp_into and two batch forms; every lane of
/// every answer must hold the query value
fn drive1<Sd, Sx, D>(label: &str, data: ArrayBase<Sd, D>, x: ArrayBase<Sx, Ix1>) -> Option<String>
where
    Sd: Data<Elem = f64> + ndarray::RawDataClone,
    Sx: Data<Elem = f64> + ndarray::RawDataClone,
    D: Dimension + RemoveAxis,
    // a tree may demand `Self: Sync` of the batch entry points (see slots::MaybeSync)
    Interp1D<Sd, Sx, D, Rec1<D>>: crate::slots::MaybeSync,
{
    NOTES.with(|n| n.borrow_mut().clear());
    let trailing: Vec<usize> = data.shape()[1..].to_vec();
    let qs: Vec<f64> = vec![x[0], x[x.len() - 1], (x[0] + x[1]) / 2.0, x[0] - 3.0];
    let r = catch_unwind(AssertUnwindSafe(|| -> Result<(), String> {
        let it = Interp1DBuilder::new(data).x(x).strategy(Rec).build().map_err(|e| format!("build() of valid inputs failed: {e:?}"))?;
        for &q in &qs {
            let a = it.interp(q).map_err(|e| format!("interp({q:?}) failed although the strategy returned Ok: {e:?}"))?;
            if a.shape() != &trailing[..] || a.iter().any(|v| v.to_bits() != q.to_bits()) {
                return Err(format!("interp({q:?}): the strategy's output did not reach the caller"));
            }
            let mut buf = ArrayD::from_elem(IxDyn(&trailing), f64::NAN).into_dimensionality::<D::Smaller>().map_err(|e| e.to_string())?;
            it.interp_into(q, buf.view_mut()).map_err(|e| format!("interp_into({q:?}) failed although the strategy returned Ok: {e:?}"))?;
            if buf.iter().any(|v| v.to_bits() != q.to_bits()) {
                return Err(format!("interp_into({q:?}): the strategy's output did not reach the caller"));
            }
        }
        let q1 = ArrayD::from_shape_vec(IxDyn(&[qs.len()]), qs.clone()).map_err(|e| e.to_string())?;
        let a = it.interp_array(&q1).map_err(|e| format!("interp_array failed although the strategy returned Ok: {e:?}"))?;
        let lanes: usize = trailing.iter().product();
        if a.len() != qs.len() * lanes || (lanes > 0 && a.iter().enumerate().any(|(k, v)| v.to_bits() != qs[k / lanes].to_bits())) {
            return Err("interp_array: the strategy's output did not reach the caller".to_string());
        }
        let q2 = ArrayD::from_shape_vec(IxDyn(&[2, 2]), qs.clone()).map_err(|e| e.to_string())?;
        let a = it.interp_array(&q2).map_err(|e| format!("interp_array (n-d query) failed although the strategy returned Ok: {e:?}"))?;
        if a.len() != qs.len() * lanes || (lanes > 0 && a.iter().enumerate().any(|(k, v)| v.to_bits() != qs[k / lanes].to_bits())) {
            return Err("interp_array (n-d query): the strategy's output did not reach the caller".to_string());
        }
        Ok(())
    }));
    let first = NOTES.with(|n| n.borrow().first().cloned());
    if let Some(n) = first {
        return Some(format!("{label}: {n}"));
    }
    match r {
        Ok(Ok(())) => None,
        Ok(Err(e)) => Some(format!("{label}: {e}")),
        Err(p) => Some(format!("{label}: a query whose strategy returns Ok panicked: {}", panic_text(p))),
    }
}

fn drive2<Sd, Sx, Sy, D>(label: &str, data: ArrayBase<Sd, D>, x: ArrayBase<Sx, Ix1>, y: ArrayBase<Sy, Ix1>) -> Option<String>
where
    Sd: Data<Elem = f64> + ndarray::RawDataClone,
    Sx: Data<Elem = f64> + ndarray::RawDataClone,
    Sy: Data<Elem = f64> + ndarray::RawDataClone,
    D: Dimension + RemoveAxis,
    D::Smaller: RemoveAxis,
    Interp2D<Sd, Sx, Sy, D, Rec2<D>>: crate::slots::MaybeSync,
{
    NOTES.with(|n| n.borrow_mut().clear());
    let trailing: Vec<usize> = data.shape()[2..].to_vec();
    let qx: Vec<f64> = vec![x[0], x[x.len() - 1], (x[0] + x[1]) / 2.0, x[0] - 3.0];
    let qy: Vec<f64> = vec![y[y.len() - 1], y[0], (y[0] + y[1]) / 2.0, y[0] + 0.25];
    let r = catch_unwind(AssertUnwindSafe(|| -> Result<(), String> {
        let it = Interp2DBuilder::new(data).x(x).y(y).strategy(Rec).build().map_err(|e| format!("build() of valid inputs failed: {e:?}"))?;
        for (&a, &b) in qx.iter().zip(&qy) {
            let want = a * 1000.0 + b;
            let r = it.interp(a, b).map_err(|e| format!("interp({a:?},{b:?}) failed although the strategy returned Ok: {e:?}"))?;
            if r.shape() != &trailing[..] || r.iter().any(|v| v.to_bits() != want.to_bits()) {
                return Err(format!("interp({a:?},{b:?}): the strategy's output did not reach the caller"));
            }
        }
        let lanes: usize = trailing.iter().product();
        let r = it.interp_array(&ArrayD::from_shape_vec(IxDyn(&[2, 2]), qx.clone()).map_err(|e| e.to_string())?, &ArrayD::from_shape_vec(IxDyn(&[2, 2]), qy.clone()).map_err(|e| e.to_string())?).map_err(|e| format!("interp_array failed although the strategy returned Ok: {e:?}"))?;
        if r.len() != qx.len() * lanes || (lanes > 0 && r.iter().enumerate().any(|(k, v)| v.to_bits() != (qx[k / lanes] * 1000.0 + qy[k / lanes]).to_bits())) {
            return Err("interp_array: the strategy's output did not reach the caller".to_string());
        }
        Ok(())
    }));
    let first = NOTES.with(|n| n.borrow().first().cloned());
    if let Some(n) = first {
        return Some(format!("{label}: {n}"));
    }
    match r {
        Ok(Ok(())) => None,
        Ok(Err(e)) => Some(format!("{label}: {e}")),
        Err(p) => Some(format!("{label}: a query whose strategy returns Ok panicked: {}", panic_text(p))),
    }
}

/// number of strategy callbacks made by the table so far (evidence)
pub fn callbacks() -> u64 {
    CALLS.with(|c| c.get())
}

/// violation kind of a verdict of the table
pub fn kind_of(detail: &str) -> &'static str {
    if detail.contains("strategy's build was invoked") {
        "build-invoked-on-invalid-input"
    } else {
        "callback-invariant"
    }
}

/// returns (number of cases, first violation)
pub fn degenerate_stride_cases() -> (u64, Option<String>) {
    use ndarray::{Array2, Array3, Array4};
    let mut n = 0u64;
    macro_rules! case {
        ($e:expr) => {{
            n += 1;
            if let Some(v) = $e {
                return (n, Some(v));
            }
        }};
    }
    let ax = |k: usize| Array1::from_iter((0..k).map(|i| 1.5 * i as f64 - 1.0));
    let row3 = Array1::from_vec(vec![7.0, -2.5, 11.0]);
    let plane = Array2::from_shape_fn((2, 3), |(i, j)| (10 * i + j) as f64 + 0.5);

    // --- 1-D: zero-length trailing axes (owned arrays: all strides are 0) ------------------------
    case!(drive1("1-D, owned data of shape (3,0)", Array2::<f64>::zeros((3, 0)), ax(3)));
    case!(drive1("1-D, owned data of shape (3,2,0)", Array3::<f64>::zeros((3, 2, 0)), ax(3)));
    case!(drive1("1-D, owned data of shape (2,0,2)", Array3::<f64>::zeros((2, 0, 2)), ax(2)));
    case!(drive1("1-D, owned dynamic-rank data of shape [2,0]", ArrayD::<f64>::zeros(IxDyn(&[2, 0])), ax(2)));
    case!(drive1("1-D, shared data of shape (4,0,3)", Array3::<f64>::zeros((4, 0, 3)).into_shared(), ax(4).into_shared()));
    // --- 1-D: a row broadcast along the interpolated axis (stride 0 along axis 0) ---------------
    case!(drive1("1-D, view: one row broadcast to (4,3)", row3.broadcast((4, 3)).unwrap(), ax(4).view()));
    case!(drive1("1-D, view: one row broadcast to (2,3)", row3.broadcast((2, 3)).unwrap(), ax(2).view()));
    case!(drive1("1-D, view: a plane broadcast to (5,2,3)", plane.broadcast((5, 2, 3)).unwrap(), ax(5).view()));
    case!(drive1("1-D, dynamic-rank view: one row broadcast to [3,3]", row3.broadcast(IxDyn(&[3, 3])).unwrap(), ax(3).view()));
    case!(drive1("1-D, view: a scalar broadcast to (6)", ndarray::arr0(4.25).broadcast(6).unwrap(), ax(6).view()));
    case!(drive1("1-D, owned axis, view: one row broadcast to (3,3)", row3.broadcast((3, 3)).unwrap(), ax(3)));
    // --- 1-D: a column broadcast along a trailing axis (stride 0 along axis 1) -------------------
    {
        let col = Array2::from_shape_fn((4, 1), |(i, _)| i as f64 * 2.0 - 3.0);
        case!(drive1("1-D, view: one column broadcast to (4,5)", col.broadcast((4, 5)).unwrap(), ax(4).view()));
        let t = Array3::from_shape_fn((3, 1, 2), |(i, _, k)| (i * 2 + k) as f64);
        case!(drive1("1-D, view: middle axis broadcast to (3,4,2)", t.broadcast((3, 4, 2)).unwrap(), ax(3).view()));
    }
    // --- 1-D: trailing axes of length 1 (their stride is arbitrary) ------------------------------
    {
        let big = Array3::from_shape_fn((6, 4, 5), |(i, j, k)| (100 * i + 10 * j + k) as f64);
        case!(drive1("1-D, view: window (3,1,1) of a larger array, stepped", big.slice(ndarray::s![..;2, 1..2, 3..4]), ax(3).view()));
        case!(drive1("1-D, view: window (2,1,5) reversed along axis 0", big.slice(ndarray::s![..;-3, 2..3, ..]), ax(2).view()));
        let four = Array4::from_shape_fn((3, 1, 2, 1), |(i, _, k, _)| (i * 2 + k) as f64);
        case!(drive1("1-D, owned data of shape (3,1,2,1)", four, ax(3)));
    }
    // --- 2-D -------------------------------------------------------------------------------------
    case!(drive2("2-D, owned data of shape (3,2,0)", Array3::<f64>::zeros((3, 2, 0)), ax(3), ax(2)));
    case!(drive2("2-D, owned dynamic-rank data of shape [2,3,0]", ArrayD::<f64>::zeros(IxDyn(&[2, 3, 0])), ax(2), ax(3)));
    case!(drive2("2-D, view: one row broadcast to (4,3) (stride 0 along x)", row3.broadcast((4, 3)).unwrap(), ax(4).view(), ax(3).view()));
    {
        let col = Array2::from_shape_fn((4, 1), |(i, _)| i as f64 * 2.0 - 3.0);
        case!(drive2("2-D, view: one column broadcast to (4,5) (stride 0 along y)", col.broadcast((4, 5)).unwrap(), ax(4).view(), ax(5).view()));
    }
    case!(drive2("2-D, view: a plane broadcast to (5,2,3) (stride 0 along x, trailing axis)", plane.broadcast((5, 2, 3)).unwrap(), ax(5).view(), ax(2).view()));
    case!(drive2("2-D, view: a scalar broadcast to (2,2)", ndarray::arr0(-1.5).broadcast((2, 2)).unwrap(), ax(2).view(), ax(2).view()));
    {
        let t = Array3::from_shape_fn((3, 2, 1), |(i, j, _)| (i * 2 + j) as f64);
        case!(drive2("2-D, view: trailing axis broadcast to (3,2,4)", t.broadcast((3, 2, 4)).unwrap(), ax(3).view(), ax(2).view()));
    }
    // --- 2-D: axes that alias each other, minimum length on one axis, doubly reversed axes --------
    {
        let one = ax(7);
        let grid = |a: usize, b: usize| Array2::from_shape_fn((a, b), |(i, j)| (i * 17 + j * 3) as f64 * 0.25 - 2.0);
        case!(drive2("2-D, x and y are the same view (5 x 5)", grid(5, 5), one.slice(ndarray::s![..5]), one.slice(ndarray::s![..5])));
        case!(drive2("2-D, x and y are overlapping views of one array (4 x 6)", grid(4, 6), one.slice(ndarray::s![..4]), one.slice(ndarray::s![1..])));
        case!(drive2("2-D, x and y are disjoint views of one array (3 x 4)", grid(3, 4), one.slice(ndarray::s![..3]), one.slice(ndarray::s![3..])));
        case!(drive2("2-D, x and y are interleaved views of one array (4 x 3)", grid(4, 3), one.slice(ndarray::s![..;2]), one.slice(ndarray::s![1..;2])));
        case!(drive2("2-D, shared axes with one owner (3 x 3)", grid(3, 3).into_shared(), ax(3).into_shared(), ax(3).into_shared()));
        case!(drive2("2-D, 2 x 7 (declared minimum on x)", grid(2, 7), ax(2), ax(7)));
        case!(drive2("2-D, 7 x 2 (declared minimum on y)", grid(7, 2), ax(7), ax(2)));
        let rev = Array1::from_iter((0..5).rev().map(|i| 1.5 * i as f64 - 1.0));
        case!(drive2("2-D, axes that are reversed views of descending arrays (5 x 5)", grid(5, 5), rev.slice(ndarray::s![..;-1]), rev.slice(ndarray::s![..;-1])));
        let t = grid(6, 4);
        case!(drive2("2-D, transposed data view (4 x 6)", t.t(), ax(4).view(), ax(6).view()));
    }
    // --- builder: invalid axes that ALIAS a valid one (same first element, same length, other
    // stride), alias the data, or are broadcast; none of them may reach the strategy's build ------
    {
        let base = ax(5);
        let grid = |a: usize, b: usize| Array2::from_shape_fn((a, b), |(i, j)| (i * 7 + j) as f64);
        let flat = base.slice(ndarray::s![0..1]);
        case!(probe_build2("builder 2-D: y = first element of x broadcast (stride 0, same start, same length)", grid(5, 5), base.view(), flat.broadcast(5).unwrap()));
        case!(probe_build2("builder 2-D: x = first element of y broadcast", grid(5, 5), flat.broadcast(5).unwrap(), base.view()));
        case!(probe_build2("builder 2-D: y = reversed view starting at x's first element", grid(3, 3), base.slice(ndarray::s![2..5]), base.slice(ndarray::s![0..3;-1])));
        case!(probe_build2("builder 2-D: x = reversed view starting at y's first element", grid(3, 3), base.slice(ndarray::s![0..3;-1]), base.slice(ndarray::s![2..5])));
        case!(probe_build2("builder 2-D: owned y with a tie next to a view x", grid(3, 3), base.slice(ndarray::s![0..3]), Array1::from_vec(vec![-1.0, 2.0, 2.0])));
        case!(probe_build2("builder 2-D: y is the same view as x but the data is 5 x 4", grid(5, 4), base.view(), base.view()));
        case!(probe_build2("builder 2-D: x and y identical views, both with a tie", grid(3, 3), flat.broadcast(3).unwrap(), flat.broadcast(3).unwrap()));
        case!(probe_build2("builder 2-D: y reversed (descending) view of x", grid(5, 5), base.view(), base.slice(ndarray::s![..;-1])));
        // 1-D: the axis aliases the data
        let d1 = Array1::from_vec(vec![0.0, 1.0, 2.0, 3.0]);
        case!(probe_build1("builder 1-D: x = first element of the data broadcast", d1.view(), d1.slice(ndarray::s![0..1]).broadcast(4).unwrap()));
        case!(probe_build1("builder 1-D: x = the data reversed", d1.view(), d1.slice(ndarray::s![..;-1])));
        case!(probe_build1("builder 1-D: x = the data itself (valid)", d1.view(), d1.view()));
        case!(probe_build1("builder 1-D: x = a window of the data (too short)", d1.view(), d1.slice(ndarray::s![..3])));
        let col = Array2::from_shape_fn((4, 3), |(i, j)| (i as f64) * if j == 1 { -1.0 } else { 1.0 });
        case!(probe_build1("builder 1-D: x = a descending column of the data", col.view(), col.column(1)));
        case!(probe_build1("builder 1-D: x = an ascending column of the data (valid)", col.view(), col.column(0)));
    }
    (n, None)
}

// ---------------------------------------------------------------------------------------------
// C17 over the same degenerate data: the shipped strategies, a fixed history of calls through
// every entry point (with a rejected query, a batch that fails half-way and a wrongly shaped
// buffer in between), every answer compared with the same call made ALONE on a freshly built
// interpolator of the same inputs. Sequential: this table adds histories over inputs the seeded
// generator cannot express, not schedules.
// ---------------------------------------------------------------------------------------------

#[derive(Debug, Clone)]
enum HCall {
    Interp(f64, f64),
    Array(Vec<f64>, Vec<f64>),
    Into(f64, f64),
    BadBuf(f64, f64),
}

fn digest(r: std::thread::Result<Result<ArrayD<f64>, InterpolateError>>) -> String {
    match r {
        Ok(Ok(a)) => format!("Ok shape={:?} bits={:x?}", a.shape(), a.iter().map(|v| v.to_bits()).collect::<Vec<_>>()),
        Ok(Err(e)) => format!("Err {e:?}"),
        Err(_) => "panic".to_string(),
    }
}

/// ties the closure's parameter type to the type of `_witness`
fn typed<T, F: Fn(&T, &HCall) -> String>(_witness: &T, f: F) -> F {
    f
}

fn history(xs: &[f64], ys: &[f64]) -> Vec<HCall> {
    let pts = |a: &[f64]| {
        let n = a.len();
        (a[0], a[n - 1], (a[0] + a[1]) / 2.0, (a[n - 2] + a[n - 1]) / 2.0 + 0.125, a[0] - 3.0)
    };
    let (lo, hi, mid, mid2, out) = pts(xs);
    let (ylo, yhi, ymid, ymid2, yout) = if ys.is_empty() { (0.0, 0.0, 0.0, 0.0, 0.0) } else { pts(ys) };
    use HCall::*;
    vec![
        Interp(mid, ymid),
        Interp(out, ymid),
        Interp(mid, ymid),
        Interp(mid, yout),
        Interp(lo, yhi),
        Array(vec![mid, hi, mid2], vec![ymid2, ylo, ymid]),
        BadBuf(mid, ymid),
        Interp(mid, ymid),
        Into(mid2, ymid),
        Array(vec![mid2, out, mid], vec![ymid, ymid, ymid2]),
        Interp(mid2, ymid),
        Interp(out, yout),
        Interp(hi, ylo),
        Array(vec![hi, lo], vec![yhi, yhi]),
        Into(out, ymid2),
        Into(mid, yout),
        Interp(mid, ymid),
        Interp(mid, ymid2),
    ]
}

macro_rules! hist1 {
    ($n:ident, $cmp:ident, $label:expr, $data:expr, $x:expr, [$($strat:expr),+]) => {{
        $(
            $n += 1;
            let mk = || Interp1DBuilder::new($data).x($x).strategy($strat).build();
            if let Ok(shared) = mk() {
                let xs: Vec<f64> = ($x).iter().copied().collect();
                let trailing: Vec<usize> = ($data).shape()[1..].to_vec();
                let exec = typed(&shared, |it, c| match c {
                    HCall::Interp(q, _) => digest(catch_unwind(AssertUnwindSafe(|| it.interp(*q).map(|a| a.into_dyn())))),
                    HCall::Array(qs, _) => digest(catch_unwind(AssertUnwindSafe(|| {
                        it.interp_array(&ArrayD::from_shape_vec(IxDyn(&[qs.len()]), qs.clone()).unwrap()).map(|a| a.into_dyn())
                    }))),
                    HCall::Into(q, _) => digest(catch_unwind(AssertUnwindSafe(|| {
                        let mut buf = ArrayD::from_elem(IxDyn(&trailing), f64::NAN).into_dimensionality().unwrap();
                        it.interp_into(*q, buf.view_mut()).map(|_| buf.into_dyn())
                    }))),
                    HCall::BadBuf(q, _) => {
                        let mut bad = trailing.clone();
                        match bad.last_mut() {
                            Some(l) => *l += 1,
                            None => return "skip".to_string(),
                        }
                        let r = catch_unwind(AssertUnwindSafe(|| {
                            let mut buf = ArrayD::from_elem(IxDyn(&bad), f64::NAN).into_dimensionality().unwrap();
                            it.interp_into(*q, buf.view_mut()).map(|_| ArrayD::<f64>::zeros(IxDyn(&[0])))
                        }));
                        // what a failed call leaves in the caller's buffer is not compared
                        match r { Ok(Ok(_)) => "Ok".to_string(), other => digest(other) }
                    }
                });
                for (k, c) in history(&xs, &[]).iter().enumerate() {
                    let got = exec(&shared, c);
                    let fresh = mk().expect("second build of the same inputs");
                    let want = exec(&fresh, c);
                    $cmp += 1;
                    if got != want {
                        return ($n, $cmp, Some(format!("{} [{}]: call {k} {c:?} after the calls before it gives {got} but alone on a freshly built interpolator {want}", $label, stringify!($strat))));
                    }
                }
            }
        )+
    }};
}

macro_rules! hist2 {
    ($n:ident, $cmp:ident, $label:expr, $data:expr, $x:expr, $y:expr, [$($strat:expr),+]) => {{
        $(
            $n += 1;
            let mk = || Interp2DBuilder::new($data).x($x).y($y).strategy($strat).build();
            if let Ok(shared) = mk() {
                let xs: Vec<f64> = ($x).iter().copied().collect();
                let ys: Vec<f64> = ($y).iter().copied().collect();
                let trailing: Vec<usize> = ($data).shape()[2..].to_vec();
                let exec = typed(&shared, |it, c| match c {
                    HCall::Interp(a, b) => digest(catch_unwind(AssertUnwindSafe(|| it.interp(*a, *b).map(|r| r.into_dyn())))),
                    HCall::Array(qa, qb) => digest(catch_unwind(AssertUnwindSafe(|| {
                        it.interp_array(&ArrayD::from_shape_vec(IxDyn(&[qa.len()]), qa.clone()).unwrap(), &ArrayD::from_shape_vec(IxDyn(&[qb.len()]), qb.clone()).unwrap()).map(|r| r.into_dyn())
                    }))),
                    HCall::Into(a, b) => digest(catch_unwind(AssertUnwindSafe(|| {
                        let mut buf = ArrayD::from_elem(IxDyn(&trailing), f64::NAN).into_dimensionality().unwrap();
                        it.interp_into(*a, *b, buf.view_mut()).map(|_| buf.into_dyn())
                    }))),
                    HCall::BadBuf(a, b) => {
                        let mut bad = trailing.clone();
                        match bad.last_mut() {
                            Some(l) => *l += 1,
                            None => return "skip".to_string(),
                        }
                        let r = catch_unwind(AssertUnwindSafe(|| {
                            let mut buf = ArrayD::from_elem(IxDyn(&bad), f64::NAN).into_dimensionality().unwrap();
                            it.interp_into(*a, *b, buf.view_mut()).map(|_| ArrayD::<f64>::zeros(IxDyn(&[0])))
                        }));
                        match r { Ok(Ok(_)) => "Ok".to_string(), other => digest(other) }
                    }
                });
                for (k, c) in history(&xs, &ys).iter().enumerate() {
                    let got = exec(&shared, c);
                    let fresh = mk().expect("second build of the same inputs");
                    let want = exec(&fresh, c);
                    $cmp += 1;
                    if got != want {
                        return ($n, $cmp, Some(format!("{} [{}]: call {k} {c:?} after the calls before it gives {got} but alone on a freshly built interpolator {want}", $label, stringify!($strat))));
                    }
                }
            }
        )+
    }};
}

/// returns (interpolators driven, responses compared, first violation)
pub fn degenerate_history_cases() -> (u64, u64, Option<String>) {
    use ndarray::{Array2, Array3};
    use ndarray_interp::interp1d::cubic_spline::CubicSpline;
    use ndarray_interp::interp1d::Linear;
    use ndarray_interp::interp2d::Bilinear;
    let mut n = 0u64;
    let mut cmp = 0u64;
    let ax = |k: usize| Array1::from_iter((0..k).map(|i| 1.5 * i as f64 - 1.0));
    let row3 = Array1::from_vec(vec![7.0, -2.5, 11.0]);
    let plane = Array2::from_shape_fn((2, 3), |(i, j)| (10 * i + j) as f64 + 0.5);
    let col = Array2::from_shape_fn((5, 1), |(i, _)| (i * i) as f64 * 0.5 - 3.0);
    let mid = Array3::from_shape_fn((4, 1, 2), |(i, _, k)| ((i * 3 + k) % 5) as f64);
    let (a3, a4, a5, a6) = (ax(3), ax(4), ax(5), ax(6));
    let (s1, s2) = (ndarray::arr0(4.25), ndarray::arr0(-1.5));

    hist1!(n, cmp, "1-D, owned data of shape (4,0)", Array2::<f64>::zeros((4, 0)), ax(4), [Linear::new(), Linear::new().extrapolate(true), CubicSpline::new()]);
    hist1!(n, cmp, "1-D, owned data of shape (5,2,0)", Array3::<f64>::zeros((5, 2, 0)), ax(5), [Linear::new(), CubicSpline::new().extrapolate(true)]);
    hist1!(n, cmp, "1-D, owned dynamic-rank data of shape [4,0]", ArrayD::<f64>::zeros(IxDyn(&[4, 0])), ax(4), [Linear::new(), CubicSpline::new()]);
    hist1!(n, cmp, "1-D, view: one row broadcast to (4,3)", row3.broadcast((4, 3)).unwrap(), a4.view(), [Linear::new(), Linear::new().extrapolate(true), CubicSpline::new(), CubicSpline::new().extrapolate(true)]);
    hist1!(n, cmp, "1-D, view: a plane broadcast to (5,2,3)", plane.broadcast((5, 2, 3)).unwrap(), a5.view(), [Linear::new(), CubicSpline::new()]);
    hist1!(n, cmp, "1-D, dynamic-rank view: one row broadcast to [6,3]", row3.broadcast(IxDyn(&[6, 3])).unwrap(), a6.view(), [Linear::new(), CubicSpline::new()]);
    hist1!(n, cmp, "1-D, view: a scalar broadcast to (6)", s1.broadcast(6).unwrap(), a6.view(), [Linear::new(), CubicSpline::new()]);
    hist1!(n, cmp, "1-D, view: one column broadcast to (5,4)", col.broadcast((5, 4)).unwrap(), a5.view(), [Linear::new(), Linear::new().extrapolate(true), CubicSpline::new()]);
    hist1!(n, cmp, "1-D, view: middle axis broadcast to (4,3,2)", mid.broadcast((4, 3, 2)).unwrap(), a4.view(), [Linear::new(), CubicSpline::new()]);

    hist2!(n, cmp, "2-D, owned data of shape (3,4,0)", Array3::<f64>::zeros((3, 4, 0)), ax(3), ax(4), [Bilinear::new(), Bilinear::new().extrapolate(true)]);
    hist2!(n, cmp, "2-D, view: one row broadcast to (4,3)", row3.broadcast((4, 3)).unwrap(), a4.view(), a3.view(), [Bilinear::new(), Bilinear::new().extrapolate(true)]);
    hist2!(n, cmp, "2-D, view: one column broadcast to (5,4)", col.broadcast((5, 4)).unwrap(), a5.view(), a4.view(), [Bilinear::new(), Bilinear::new().extrapolate(true)]);
    hist2!(n, cmp, "2-D, view: a scalar broadcast to (3,3)", s2.broadcast((3, 3)).unwrap(), a3.view(), a3.view(), [Bilinear::new()]);
    hist2!(n, cmp, "2-D, view: a plane broadcast to (5,2,3)", plane.broadcast((5, 2, 3)).unwrap(), a5.view(), ax(2), [Bilinear::new()]);
    hist2!(n, cmp, "2-D, view: y axis broadcast to (4,6,2) (stride 0 along y)", mid.broadcast((4, 6, 2)).unwrap(), a4.view(), a6.view(), [Bilinear::new(), Bilinear::new().extrapolate(true)]);
    (n, cmp, None)
}

//! Engine A: execute one `RunSpec` under the baton scheduler and check it.
//!
//! Oracle for C17: the stateless reference model "a pure function of (slot configuration,
//! operation)", tabulated by executing every distinct operation once, alone, on a freshly built
//! interpolator, on the main thread. Every response of the simulated history must equal it.
//! Oracle for C18: the invariants checked inside the stub's callbacks plus the checks over the
//! recorded outcomes in `check_c18`.

use std::collections::BTreeMap;
use std::sync::Mutex;
use std::time::Duration;

use crate::rng::Fnv;
use crate::sched::{self, Baton};
use crate::slots::{build_slot, exec, BuildFail, Slot};
use crate::stub;
use crate::types::*;

#[derive(Clone, Copy, PartialEq, Eq, Debug)]
pub enum Prop {
    C17,
    C18,
}
impl Prop {
    pub fn id(self) -> &'static str {
        match self {
            Prop::C17 => "C17",
            Prop::C18 => "C18",
        }
    }
}

#[derive(Clone, Debug, serde::Serialize, serde::Deserialize, PartialEq)]
pub struct Violation {
    pub property: String,
    /// violation class, stable under minimisation (e.g. "result-mismatch")
    pub kind: String,
    pub detail: String,
    pub thread: usize,
    pub op: usize,
    pub step: usize,
}

#[derive(Clone, Debug)]
pub struct Event {
    pub step: usize,
    pub thread: usize,
    pub op: usize,
    pub digest: u64,
}

#[derive(Default, Clone, Debug)]
pub struct Counters(pub BTreeMap<String, u64>);
impl Counters {
    pub fn add(&mut self, k: &str, n: u64) {
        if n > 0 {
            *self.0.entry(k.to_string()).or_insert(0) += n;
        }
    }
    pub fn merge(&mut self, o: &Counters) {
        for (k, v) in &o.0 {
            *self.0.entry(k.clone()).or_insert(0) += v;
        }
    }
}

pub struct RunResult {
    pub violations: Vec<Violation>,
    pub events: Vec<Event>,
    pub trace: Vec<u16>,
    pub lost_control: bool,
    pub deviated: bool,
    pub unbuildable: bool,
    pub counters: Counters,
    /// responses compared with the reference
    pub compared: usize,
    pub steps: usize,
}

impl RunResult {
    pub fn trace_hash(&self) -> u64 {
        let mut h = Fnv::new();
        for &t in &self.trace {
            h.byte(t as u8);
        }
        h.0
    }
    pub fn outcome_hash(&self) -> u64 {
        let mut h = Fnv::new();
        for e in &self.events {
            h.u64(e.step as u64);
            h.u64(e.thread as u64);
            h.u64(e.op as u64);
            h.u64(e.digest);
        }
        h.0
    }
}

pub struct RunOpts {
    pub patience: Duration,
    /// additionally compare the in-process reference with one tabulated in brand-new child
    /// processes (one per slot): catches process-global "first come" state that makes every later
    /// instance of the process - the pristine ones included - consistently wrong
    pub fresh_process: bool,
}

/// index of the run executing in this process (for the HUNG line)
pub static CURRENT_RUN: std::sync::atomic::AtomicU64 = std::sync::atomic::AtomicU64::new(0);

pub fn spec_has_nest(spec: &RunSpec) -> bool {
    spec.threads.iter().any(|t| t.ops.iter().any(|o| o.plan.iter().any(|a| matches!(a, Act::Nest { .. }))))
}

/// set once the watchdog had to release a run in this process: the code under test evidently
/// blocks on something the simulator does not see, so later runs need not wait as long
static LOST_ONCE: std::sync::atomic::AtomicBool = std::sync::atomic::AtomicBool::new(false);

impl Default for RunOpts {
    fn default() -> Self {
        let lost = LOST_ONCE.load(std::sync::atomic::Ordering::Relaxed);
        // minimisation candidates of a run that is known to block get a short fuse
        if let Some(ms) = std::env::var("DST_PATIENCE_MS").ok().and_then(|s| s.parse::<u64>().ok()) {
            return RunOpts { patience: Duration::from_millis(ms), fresh_process: false };
        }
        RunOpts { patience: if lost { Duration::from_millis(250) } else { Duration::from_secs(10) }, fresh_process: false }
    }
}

/// the operation whose solitary execution is the reference of `op`: for a query of a private
/// interpolator, the inner call on a fresh instance of the same configuration
fn reference_twin(op: &Op) -> Op {
    match &op.call {
        Call::PrivQuery { inner } | Call::Repeat { inner, .. } => Op { call: (**inner).clone(), ..op.clone() },
        _ => op.clone(),
    }
}

fn op_key(op: &Op) -> String {
    // what the answer may depend on: slot, call, stub plan (the schedule-only fields are excluded)
    let mut o = reference_twin(op);
    o.yield_mask = 0;
    serde_json::to_string(&o).unwrap()
}

struct RefTable {
    /// index into `outs` per (thread, op)
    idx: Vec<Vec<usize>>,
    ops: Vec<Op>,
    outs: Vec<Outcome>,
}

fn tabulate(spec: &RunSpec, reverse: bool) -> Result<RefTable, BuildFail> {
    let mut keys: BTreeMap<String, usize> = BTreeMap::new();
    let mut ops: Vec<Op> = vec![];
    let mut idx = vec![];
    for t in &spec.threads {
        let mut row = vec![];
        for op in &t.ops {
            let k = op_key(op);
            let n = keys.len();
            let i = *keys.entry(k).or_insert(n);
            if i == ops.len() {
                ops.push(reference_twin(op));
            }
            row.push(i);
        }
        idx.push(row);
    }
    let mut outs: Vec<Option<Outcome>> = vec![None; ops.len()];
    let order: Vec<usize> = if reverse { (0..ops.len()).rev().collect() } else { (0..ops.len()).collect() };
    for i in order {
        // a fresh instance per operation: no history at all
        let slot = build_slot(&spec.slots[ops[i].slot])?;
        outs[i] = Some(exec(&*slot, &ops[i]));
    }
    Ok(RefTable { idx, ops, outs: outs.into_iter().map(|o| o.unwrap()).collect() })
}

/// child side of the fresh-process reference: outcomes of the distinct operations of one slot,
/// each on a freshly built instance, in a process that has never built anything else
pub fn ref_child(spec: &RunSpec, slot: usize) -> Vec<Outcome> {
    let mut out = vec![];
    if let Ok(t) = tabulate_filtered(spec, Some(slot)) {
        out = t.outs;
    }
    out
}

fn tabulate_filtered(spec: &RunSpec, only_slot: Option<usize>) -> Result<RefTable, BuildFail> {
    let mut t = tabulate_ops(spec);
    let mut outs = vec![];
    let mut ops = vec![];
    for op in t.ops.drain(..) {
        if only_slot.map_or(true, |s| s == op.slot) {
            let slot = build_slot(&spec.slots[op.slot])?;
            outs.push(exec(&*slot, &op));
            ops.push(op);
        }
    }
    Ok(RefTable { idx: vec![], ops, outs })
}

fn tabulate_ops(spec: &RunSpec) -> RefTable {
    let mut keys: BTreeMap<String, usize> = BTreeMap::new();
    let mut ops: Vec<Op> = vec![];
    for t in &spec.threads {
        for op in &t.ops {
            let k = op_key(op);
            let n = keys.len();
            let i = *keys.entry(k).or_insert(n);
            if i == ops.len() {
                ops.push(reference_twin(op));
            }
        }
    }
    RefTable { idx: vec![], ops, outs: vec![] }
}

/// parent side: one brand-new child process per slot tabulates that slot's operations; the
/// in-process pristine instances must agree with them
fn fresh_process_check(spec: &RunSpec, res: &mut RunResult) {
    use std::io::Write;
    use std::process::{Command, Stdio};
    let Ok(mine) = tabulate_filtered(spec, None) else { return };
    let Ok(exe) = std::env::current_exe() else { return };
    let json = serde_json::to_string(spec).unwrap();
    for slot in 0..spec.slots.len() {
        let mut cmd = Command::new(&exe);
        cmd.arg("ref").arg(slot.to_string());
        if stub::NO_NEST.load(std::sync::atomic::Ordering::Relaxed) {
            // the child must execute the operations the way this process does
            cmd.arg("--no-nest");
        }
        let Ok(mut child) = cmd.stdin(Stdio::piped()).stdout(Stdio::piped()).stderr(Stdio::null()).spawn() else { return };
        if let Some(mut si) = child.stdin.take() {
            let _ = si.write_all(json.as_bytes());
        }
        let Ok(out) = child.wait_with_output() else { return };
        let Ok(theirs) = serde_json::from_slice::<Vec<Outcome>>(&out.stdout) else { continue };
        let mut k = 0;
        for (op, m) in mine.ops.iter().zip(mine.outs.iter()) {
            if op.slot != slot {
                continue;
            }
            let Some(t) = theirs.get(k) else { break };
            k += 1;
            res.compared += 1;
            res.counters.add("reach.compared_with_fresh_process", 1);
            if op.elem_fault == 0 && !m.same_answer(t) {
                res.violations.push(Violation {
                    property: "C17".into(),
                    kind: "process-history-dependence".into(),
                    detail: format!(
                        "a freshly built interpolator in THIS process answers differently from the same configuration in a brand-new process (something built earlier in the process changed it): {}",
                        mismatch_detail(op, &spec.slots[op.slot], t, m)
                    ),
                    thread: usize::MAX,
                    op: k - 1,
                    step: res.steps,
                });
                return;
            }
        }
    }
}

fn mismatch_detail(op: &Op, cfg: &SlotCfg, want: &Outcome, got: &Outcome) -> String {
    format!("slot={} [{}] call={} want: {} got: {}", op.slot, cfg.label(), op.call.name(), want.brief(), got.brief())
}

/// C17, entry-point clause: for allocating calls and exactly shaped C-order buffers the batch
/// result must agree bitwise, element by element, with the single-point entry points.
fn entry_point_check(spec: &RunSpec, table: &RefTable, out: &mut Vec<Violation>, counters: &mut Counters) -> Result<(), BuildFail> {
    for (op, res) in table.ops.iter().zip(table.outs.iter()) {
        let cfg = &spec.slots[op.slot];
        // user strategies need not be pure (the stub's values carry the callback index): the
        // entry-point clause is about the built-in strategies
        if cfg.kind.is_probe() || op.elem_fault != 0 {
            continue;
        }
        // single-point entry points among themselves: interp_scalar / interp_into vs interp
        if let Call::Scalar { x, y } | Call::InterpInto { x, y, .. } = &op.call {
            if let Call::InterpInto { buf, .. } = &op.call {
                if !(buf.exact && buf.lay == Lay::C) {
                    continue;
                }
            }
            if res.class == Class::Panic || res.class == Class::Skip {
                continue;
            }
            let single = Op { slot: op.slot, call: Call::Interp { x: *x, y: *y }, plan: op.plan.clone(), yield_mask: 0, check_acc: false, elem_fault: 0 };
            let slot = build_slot(cfg)?;
            let s = exec(&*slot, &single);
            counters.add("entrypoint.comparisons", 1);
            let differ = s.class != res.class || s.text != res.text || (s.class == Class::Ok && s.bits != res.bits);
            if s.class != Class::Panic && differ {
                out.push(Violation {
                    property: "C17".into(),
                    kind: "entry-point-mismatch".into(),
                    detail: format!("slot={} [{}] {}({:?},{:?}) gives {} but interp gives {}", op.slot, cfg.label(), op.call.name(), x.0, y.0, res.brief(), s.brief()),
                    thread: 0,
                    op: 0,
                    step: 0,
                });
                return Ok(());
            }
            continue;
        }
        let (q, via_into) = match &op.call {
            Call::Array { q } => (q, false),
            Call::ArrayInto { q, buf } if buf.exact && buf.lay == Lay::C => (q, true),
            _ => continue,
        };
        if q.ys_shape.is_some() || res.class == Class::Panic || res.class == Class::Skip {
            continue;
        }
        let lanes: usize = cfg.trailing().iter().product();
        let n = q.xs.len();
        let mut any_err = false;
        for i in 0..n {
            let x = q.xs[i];
            let y = if q.ys.is_empty() { Fb(0.0) } else { q.ys[i] };
            let single = Op { slot: op.slot, call: Call::Interp { x, y }, plan: vec![], yield_mask: 0, check_acc: false, elem_fault: 0 };
            let slot = build_slot(cfg)?;
            let s = exec(&*slot, &single);
            counters.add("entrypoint.comparisons", 1);
            match (res.class, s.class) {
                (Class::Ok, Class::Ok) => {
                    if res.bits.len() != n * lanes || s.bits[..] != res.bits[i * lanes..(i + 1) * lanes] {
                        out.push(Violation {
                            property: "C17".into(),
                            kind: "entry-point-mismatch".into(),
                            detail: format!(
                                "slot={} [{}] {}{} element {} differs from interp({:?},{:?}): batch {:?} single {:?}",
                                op.slot,
                                cfg.label(),
                                op.call.name(),
                                if via_into { "(exact buffer)" } else { "" },
                                i,
                                x.0,
                                y.0,
                                res.bits.get(i * lanes..(i + 1) * lanes).map(|b| b.iter().map(|v| f64::from_bits(*v)).collect::<Vec<_>>()),
                                s.bits.iter().map(|v| f64::from_bits(*v)).collect::<Vec<_>>()
                            ),
                            thread: 0,
                            op: 0,
                            step: 0,
                        });
                        return Ok(());
                    }
                }
                (Class::Ok, _) => {
                    out.push(Violation {
                        property: "C17".into(),
                        kind: "entry-point-mismatch".into(),
                        detail: format!("slot={} [{}] batch call succeeded but interp({:?},{:?}) gives {}", op.slot, cfg.label(), x.0, y.0, s.brief()),
                        thread: 0,
                        op: 0,
                        step: 0,
                    });
                    return Ok(());
                }
                (Class::Err, Class::Err) => any_err = true,
                _ => {}
            }
            if s.class == Class::Panic {
                any_err = true; // a panicking element explains a failing batch as well
            }
        }
        if res.class == Class::Err && !any_err && n > 0 {
            out.push(Violation {
                property: "C17".into(),
                kind: "entry-point-mismatch".into(),
                detail: format!("slot={} [{}] batch call failed ({}) but every element succeeds through interp()", op.slot, cfg.label(), res.text),
                thread: 0,
                op: 0,
                step: 0,
            });
        }
    }
    Ok(())
}

const POISON_BITS: u64 = 0xfe3d_7f1d_5cf1_d3a3; // placeholder, replaced by poison_bits()

fn poison_bits() -> u64 {
    let _ = POISON_BITS;
    <f64 as crate::slots::El>::bits64(<f64 as crate::slots::El>::poison())
}

/// C18 checks over one recorded outcome of an operation on a probe slot
pub fn check_c18(op: &Op, cfg: &SlotCfg, out: &Outcome, thread: usize, opi: usize, step: usize, v: &mut Vec<Violation>) {
    if !cfg.kind.is_probe() {
        return;
    }
    let mut push = |kind: &str, detail: String| {
        v.push(Violation { property: "C18".into(), kind: kind.into(), detail: format!("slot={} [{}] min={} {}: {}", op.slot, cfg.label(), cfg.probe_min, op.call.name(), detail), thread, op: opi, step })
    };
    // correctly shaped calls only: the property says nothing about rejected buffers
    let exact = match &op.call {
        Call::Scalar { .. } | Call::Interp { .. } | Call::Array { .. } => true,
        // "correctly shaped" is about the shape: any memory layout of the right shape counts
        Call::InterpInto { buf, .. } | Call::ArrayInto { buf, .. } => buf.exact,
        _ => return,
    };
    if let Call::Array { q } | Call::ArrayInto { q, .. } = &op.call {
        if q.ys_shape.is_some() {
            return;
        }
    }
    if !exact || out.class == Class::Skip || out.stub.foreign_callbacks {
        return;
    }
    for s in &out.stub.violations {
        push("callback-invariant", s.clone());
    }
    let query: Vec<(u64, u64)> = match &op.call {
        Call::Scalar { x, y } | Call::Interp { x, y } | Call::InterpInto { x, y, .. } => vec![(canon(x.bits()), if cfg.kind.is_2d() { canon(y.bits()) } else { 0 })],
        Call::Array { q } | Call::ArrayInto { q, .. } => {
            if q.ys.is_empty() {
                q.xs.iter().map(|x| (canon(x.bits()), 0)).collect()
            } else {
                q.xs.iter().zip(q.ys.iter()).map(|(x, y)| (canon(x.bits()), canon(y.bits()))).collect()
            }
        }
        _ => vec![],
    };
    let trailing = cfg.trailing();
    let lanes: usize = trailing.iter().product();
    if out.stub.panicked {
        // a panicking user strategy: nothing is promised beyond "no other client is affected"
        return;
    }
    if !out.stub.tokens.is_empty() {
        // the stub returned errors: the caller must see one of exactly those, unchanged
        match out.class {
            Class::Err => {
                let ok = out.stub.tokens.iter().any(|t| out.text == format!("OutOfBounds({t:?})"));
                if !ok {
                    push("error-changed", format!("strategy returned {:?} but the caller got {}", out.stub.tokens, out.text));
                }
            }
            Class::Ok => push("error-swallowed", format!("strategy returned {:?} but the call succeeded", out.stub.tokens)),
            Class::Panic => push("error-changed", format!("strategy returned {:?} but the call panicked: {}", out.stub.tokens, out.text)),
            Class::Skip => {}
        }
        return;
    }
    match out.class {
        Class::Err => push("error-invented", format!("the caller got {} although the strategy returned no error during this operation", out.text)),
        // The library rejected the call before / without handing anything wrong to the strategy
        // (e.g. the general path panics on correctly shaped but strided buffers: that is C13's
        // business). C18 speaks about what the strategy receives when it is invoked, so this is
        // counted (probe_counters) but is not a C18 violation.
        Class::Panic => {}
        Class::Skip => {}
        Class::Ok => {
            // "its interp_into always receives the unmodified query value(s)": a call that
            // succeeded must have handed every query element to the strategy at least once
            // (how often, and in which order, is not stated and not checked)
            let n = query.len().min(64);
            let all = if n == 64 { u64::MAX } else { (1u64 << n) - 1 };
            if out.stub.received & all != all {
                let missing: Vec<usize> = (0..n).filter(|i| out.stub.received >> i & 1 == 0).collect();
                push("query-element-not-delivered", format!("the call succeeded but the strategy never received query element(s) #{:?} of {} ({} callbacks in total)", missing, query.len(), out.stub.calls));
                return;
            }
            // result shape = query shape ++ trailing, element [i.., lane] = enc(q[i..], lane)
            let want_shape: Vec<usize> = match &op.call {
                Call::Scalar { .. } => {
                    if cfg.shape.len() == if cfg.kind.is_2d() { 2 } else { 1 } && out.shape.is_empty() {
                        vec![]
                    } else {
                        trailing.clone()
                    }
                }
                Call::Interp { .. } | Call::InterpInto { .. } => trailing.clone(),
                Call::Array { q } | Call::ArrayInto { q, .. } => {
                    let mut s = q.shape.clone();
                    s.extend_from_slice(&trailing);
                    s
                }
                _ => vec![],
            };
            if out.shape != want_shape {
                push("result-shape", format!("result shape {:?}, expected query shape ++ trailing = {:?}", out.shape, want_shape));
                return;
            }
            if out.bits.len() != query.len() * lanes {
                push("result-shape", format!("{} result elements, expected {}", out.bits.len(), query.len() * lanes));
                return;
            }
            // every result element must hold what ONE callback that received this element's query
            // value wrote into its target, and no two query elements may be served by the same
            // callback (a target the strategy never got - e.g. a copy of a neighbour's row made by
            // the library - is not a correct target, whatever it contains)
            let mut used = vec![false; out.stub.seen.len()];
            if lanes > 0 && out.stub.calls as usize <= out.stub.seen.len() {
                for (i, &(xb, yb)) in query.iter().enumerate() {
                    let got0 = out.bits[i * lanes];
                    let k = (0..out.stub.seen.len()).find(|&k| !used[k] && out.stub.seen[k] == (xb, yb) && stub::enc(xb, yb, 0, k as u32).to_bits() == got0);
                    match k {
                        Some(k) if (0..lanes).all(|l| out.bits[i * lanes + l] == stub::enc(xb, yb, l, k as u32).to_bits()) => used[k] = true,
                        // served by a callback on a worker thread of the library (no reproducible
                        // callback index in the value; injectivity cannot be decided for these)
                        _ if out.stub.foreign_attributed > 0 && (0..lanes).all(|l| out.bits[i * lanes + l] == stub::enc(xb, yb, l, stub::FOREIGN_CALL).to_bits()) => {}
                        _ => {
                            // explain: whose value is it?
                            let mut whose = None;
                            'f: for (j, &(a, b)) in query.iter().enumerate() {
                                for m in 0..lanes {
                                    if out.stub.foreign_attributed > 0 && stub::enc(a, b, m, stub::FOREIGN_CALL).to_bits() == got0 {
                                        whose = Some((j, m, usize::MAX));
                                        break 'f;
                                    }
                                }
                                for k2 in 0..out.stub.seen.len() {
                                    for m in 0..lanes {
                                        if stub::enc(a, b, m, k2 as u32).to_bits() == got0 {
                                            whose = Some((j, m, k2));
                                            break 'f;
                                        }
                                    }
                                }
                            }
                            push(
                                "wrong-target",
                                format!(
                                    "result element (query #{i}) does not hold what a callback that received this query element wrote into its own target ({})",
                                    match whose {
                                        Some((j, m, k2)) if j == i || query[j] == query[i] => format!("it holds the values callback {k2} wrote, which already serve another result element with the same query value: the strategy was never given this element's target"),
                                        Some((j, m, k2)) if k2 == usize::MAX => format!("it holds the value a callback on a worker thread of the library wrote for query #{j}, lane {m}"),
                                        Some((j, m, k2)) => format!("it holds the value callback {k2} wrote for query #{j}, lane {m}"),
                                        None if got0 == poison_bits() => "buffer element never written".to_string(),
                                        None => format!("holds {:?}", f64::from_bits(got0)),
                                    }
                                ),
                            );
                            return;
                        }
                    }
                }
            }
            if !out.backing.is_empty() {
                let touched = out.backing.iter().filter(|&&b| b != poison_bits()).count();
                if touched != out.bits.len() {
                    push("wrote-outside", format!("{} elements of the caller's allocation changed, the buffer has {}", touched, out.bits.len()));
                }
            }
        }
    }
}

/// re-entrant calls made from inside callbacks of `op`: each must answer exactly as the same call
/// made alone on a freshly built interpolator (C17: being inside another call is history), and
/// what its own callbacks received must satisfy the strategy-seam guarantees (C18)
fn check_nested(spec: &RunSpec, op: &Op, out: &Outcome, prop: Prop, thread: usize, opi: usize, step: usize, cache: &mut BTreeMap<String, Outcome>, v: &mut Vec<Violation>) {
    let cfg = &spec.slots[op.slot];
    for n in &out.stub.nested {
        // the nested call ran with the accessor checks of the outer operation: so must its solitary twin
        let pseudo = Op { slot: op.slot, call: n.call.clone(), plan: n.plan.clone(), yield_mask: 0, check_acc: op.check_acc, elem_fault: 0 };
        if prop == Prop::C18 {
            let mut v18 = vec![];
            check_c18(&pseudo, cfg, &n.out, thread, opi, step, &mut v18);
            for mut x in v18 {
                x.detail = format!("re-entrant call from callback {} of {}: {}", n.at, op.call.name(), x.detail);
                v.push(x);
            }
        }
        let key = op_key(&pseudo);
        let want = match cache.get(&key) {
            Some(w) => w.clone(),
            None => {
                let Ok(slot) = build_slot(cfg) else { continue };
                let w = exec(&*slot, &pseudo);
                cache.insert(key, w.clone());
                w
            }
        };
        if !n.out.same_answer(&want) {
            v.push(Violation {
                property: prop.id().into(),
                kind: if prop == Prop::C17 { "result-mismatch".into() } else { "concurrent-operation-affected".into() },
                detail: format!("re-entrant call from callback {} of {} answers differently from the same call made alone: {}", n.at, op.call.name(), mismatch_detail(&pseudo, cfg, &want, &n.out)),
                thread,
                op: opi,
                step,
            });
        }
    }
}

fn probe_counters(spec: &RunSpec, op: &Op, out: &Outcome, c: &mut Counters) {
    let cfg = &spec.slots[op.slot];
    c.add(&format!("entry.{}", op.call.name()), 1);
    match &op.call {
        Call::Array { q } | Call::ArrayInto { q, .. } => {
            match q.ty {
                QTy::Q1 => c.add("path.fast_static_ix1", 1),
                QTy::QDyn if q.shape.len() == 1 => c.add("path.general_dynamic_rank1", 1),
                _ => c.add("path.general", 1),
            }
            if q.xs.is_empty() {
                c.add("path.empty_query", 1);
            }
            if q.xs.len() >= 40 {
                c.add("reach.long_batch", 1);
            }
            if q.lay != Lay::C {
                c.add("query.nonstandard_layout", 1);
            }
            if q.ys_shape.is_some() && out.class == Class::Panic {
                c.add("fault.mismatch.fired", 1);
            }
        }
        _ => {}
    }
    // out-of-range elements
    let ax = cfg.axis_x();
    let (lo, hi) = (ax[0], ax[ax.len() - 1]);
    let xs: Vec<f64> = match &op.call {
        Call::Scalar { x, .. } | Call::Interp { x, .. } | Call::InterpInto { x, .. } => vec![x.0],
        Call::Array { q } | Call::ArrayInto { q, .. } => q.xs.iter().map(|f| f.0).collect(),
        _ => vec![],
    };
    let first_out = xs.iter().position(|&x| !(lo <= x && x <= hi));
    if let Some(p) = first_out {
        if cfg.extrapolate && !cfg.kind.is_probe() {
            if xs.iter().any(|&x| x < lo) {
                c.add("reach.extrapolate_left", 1);
            }
            if xs.iter().any(|&x| x > hi) {
                c.add("reach.extrapolate_right", 1);
            }
            if cfg.bc == Bc::Periodic && cfg.kind == Kind::Spline {
                c.add("reach.periodic_wrap", 1);
            }
        }
        if out.class == Class::Err && !cfg.kind.is_probe() {
            c.add("fault.oob.fired", 1);
            if p > 0 {
                c.add("fault.oob.mid_batch", 1);
            }
        }
    }
    match &op.call {
        Call::InterpInto { buf, .. } | Call::ArrayInto { buf, .. } if !buf.exact => {
            if out.class == Class::Panic {
                c.add("fault.badbuf.fired", 1);
            } else if out.class == Class::Ok {
                c.add("fault.badbuf.accepted_by_library", 1);
            }
        }
        Call::InterpInto { buf, .. } | Call::ArrayInto { buf, .. } if buf.lay != Lay::C => {
            if out.class == Class::Panic {
                c.add("reach.strided_buffer_rejected", 1);
            } else if out.class == Class::Ok {
                c.add("reach.strided_buffer_filled", 1);
            }
        }
        Call::IndexPoint { .. } if out.class == Class::Panic => c.add("fault.badidx.fired", 1),
        Call::Cow if out.class == Class::Ok => c.add("fault.cow.fired", 1),
        Call::Sibling { .. } => match out.class {
            Class::Ok => c.add("fault.sibling.fired", 1),
            Class::Err if out.text.starts_with("build:") => c.add("fault.sibling.build_rejected", 1),
            Class::Err => c.add("fault.sibling.fired", 1),
            _ => {}
        },
        _ => {}
    }
    if !out.stub.tokens.is_empty() {
        c.add("fault.strat_err.fired", 1);
    }
    if op.elem_fault != 0 {
        c.add("fault.elem_panic.configured", 1);
        if out.stub.elem_fault_fired {
            c.add("fault.elem_panic.fired", 1);
        }
    }
    if !out.stub.nested.is_empty() {
        c.add("fault.reenter.fired", out.stub.nested.len() as u64);
        if op.call.batch_len() > 1 && out.stub.nested.iter().any(|n| n.call.batch_len() > 1) {
            c.add("reach.reentrant_batch_inside_batch", 1);
        }
        if out.stub.nested.iter().any(|n| n.out.stub.yields > 0) {
            c.add("reach.reentrant_call_suspended", 1);
        }
    }
    if out.stub.panicked {
        c.add("fault.strat_panic.fired", 1);
    }
    if out.class == Class::Panic {
        c.add("reach.panic_unwound_through_library", 1);
    }
    if out.stub.yields > 0 {
        c.add("reach.callback_suspended_mid_batch", 1);
    }
    if out.stub.foreign_callbacks {
        c.add("reach.callbacks_on_foreign_threads", 1);
    }
    if out.stub.foreign_attributed > 0 {
        c.add("reach.callbacks_on_library_worker_threads_attributed", out.stub.foreign_attributed as u64);
    }
    if out.stub.elem_yields > 0 {
        c.add("reach.call_suspended_between_element_operations", 1);
    }
    if out.class == Class::Skip {
        c.add("harness.skip", 1);
    }
    if cfg.kind.is_probe() && out.class == Class::Panic && !out.stub.panicked {
        if let Call::Scalar { .. } | Call::Interp { .. } | Call::Array { .. } = &op.call {
            c.add("reach.library_panic_on_probe_slot_allocating_call", 1);
        }
        if let Call::InterpInto { buf, .. } | Call::ArrayInto { buf, .. } = &op.call {
            if buf.exact {
                c.add("reach.library_panic_on_correctly_shaped_buffer", 1);
            }
        }
    }
}

struct LeaveGuard<'a>(&'a Baton, usize);
impl Drop for LeaveGuard<'_> {
    fn drop(&mut self) {
        self.0.leave(self.1);
    }
}

/// execute `spec` under engine A and check `prop`
pub fn run_spec(spec: &RunSpec, prop: Prop, opts: &RunOpts) -> RunResult {
    // engine A: one client thread runs at a time, so callbacks on library worker threads can be
    // attributed to the running operation (see `stub::CURRENT_OP`)
    stub::FOREIGN_ATTRIB.store(true, std::sync::atomic::Ordering::Relaxed);
    let mut res = RunResult {
        violations: vec![],
        events: vec![],
        trace: vec![],
        lost_control: false,
        deviated: false,
        unbuildable: false,
        counters: Counters::default(),
        compared: 0,
        steps: 0,
    };
    // ---- shared instances ----------------------------------------------------------------
    let mut shared: Vec<Box<dyn Slot>> = vec![];
    for (si, cfg) in spec.slots.iter().enumerate() {
        let on_thread = spec.build_on_thread.get(si).copied().unwrap_or(false);
        let (built, log) = if on_thread {
            // built elsewhere, then moved (Send): thread-affine state in the crate would show
            res.counters.add("reach.interpolator_built_on_another_thread", 1);
            std::thread::scope(|sc| sc.spawn(|| (build_slot(cfg), stub::take_build_log())).join()).unwrap_or_else(|_| (Err(BuildFail::Panic("builder thread panicked".into())), stub::BuildLog::default()))
        } else {
            (build_slot(cfg), stub::take_build_log())
        };
        match built {
            Ok(s) => {
                if cfg.kind.is_probe() {
                    for s in log.violations {
                        res.violations.push(Violation { property: "C18".into(), kind: "build-invariant".into(), detail: format!("slot={si} [{}] min={} {s}", cfg.label(), cfg.probe_min), thread: 0, op: 0, step: 0 });
                    }
                }
                shared.push(s);
            }
            Err(e) => {
                res.unbuildable = true;
                res.counters.add(&format!("unbuildable.{}", match e { BuildFail::Err(..) => "err", BuildFail::Panic(_) => "panic", BuildFail::Unsupported(_) => "unsupported" }), 1);
                return res;
            }
        }
        res.counters.add(&format!("slot.{}", cfg.label()), 1);
    }
    // company: more interpolators of the same configurations, alive for the whole run
    let mut ballast: Vec<Box<dyn Slot>> = vec![];
    for k in 0..spec.ballast {
        if let Ok(s) = build_slot(&spec.slots[k % spec.slots.len()]) {
            ballast.push(s);
        }
    }
    let _ = stub::take_build_log();
    res.counters.add("reach.ballast_interpolators_alive", ballast.len() as u64);
    if prop == Prop::C17 {
        res.violations.retain(|v| v.property == "C17");
    }
    if !res.violations.is_empty() {
        return res;
    }
    // ---- reference table (pristine instances, main thread, no history) -----------------------
    let table = match tabulate(spec, false) {
        Ok(t) => t,
        Err(_) => {
            res.unbuildable = true;
            res.counters.add("unbuildable.reference", 1);
            return res;
        }
    };
    if prop == Prop::C17 {
        let mut v = vec![];
        let mut c = Counters::default();
        let _ = entry_point_check(spec, &table, &mut v, &mut c);
        res.counters.merge(&c);
        res.violations.extend(v);
        if !res.violations.is_empty() {
            return res;
        }
    }
    if prop == Prop::C18 {
        // the reference executions are histories of length one: check them as well
        for (op, out) in table.ops.iter().zip(table.outs.iter()) {
            check_c18(op, &spec.slots[op.slot], out, usize::MAX, 0, 0, &mut res.violations);
        }
        if !res.violations.is_empty() {
            res.violations.iter_mut().for_each(|v| v.kind = format!("{} (alone, fresh instance)", v.kind));
            return res;
        }
    }
    let mut nest_cache: BTreeMap<String, Outcome> = BTreeMap::new();
    for (op, out) in table.ops.iter().zip(table.outs.iter()) {
        check_nested(spec, op, out, prop, usize::MAX, 0, 0, &mut nest_cache, &mut res.violations);
    }
    if !res.violations.is_empty() {
        res.violations.iter_mut().for_each(|v| v.kind = format!("{} (alone, fresh instance)", v.kind));
        return res;
    }
    // ---- the simulated history ----------------------------------------------------------------
    let n = spec.threads.len();
    let baton = Baton::new(n, &spec.sched, spec.stall.clone());
    let events: Mutex<Vec<Event>> = Mutex::new(vec![]);
    let viols: Mutex<Vec<Violation>> = Mutex::new(vec![]);
    let outs: Mutex<Vec<(usize, usize, usize, Outcome)>> = Mutex::new(vec![]);
    let crashed: Mutex<u64> = Mutex::new(0);
    let mailbox: Mutex<std::collections::VecDeque<Box<dyn Slot>>> = Mutex::new(std::collections::VecDeque::new());
    std::thread::scope(|s| {
        for t in 0..n {
            let (baton, events, viols, outs, crashed, table, shared, mailbox) = (&baton, &events, &viols, &outs, &crashed, &table, &shared, &mailbox);
            let th = &spec.threads[t];
            s.spawn(move || {
                baton.enter(t);
                let _g = LeaveGuard(baton, t);
                let mut private: Vec<(usize, Box<dyn Slot>)> = vec![];
                for (i, op) in th.ops.iter().enumerate() {
                    sched::yield_now(sched::SITE_OP);
                    if baton.stop_requested() {
                        break;
                    }
                    // thread affinity: private interpolators of this client, and the mailbox through
                    // which they migrate to be dropped elsewhere
                    let out = match &op.call {
                        Call::PrivBuild => {
                            match build_slot(&spec.slots[op.slot]) {
                                Ok(s) => private.push((op.slot, s)),
                                Err(_) => {}
                            }
                            let _ = stub::take_build_log();
                            continue;
                        }
                        Call::PrivSend => {
                            if let Some((_, s)) = private.pop() {
                                mailbox.lock().unwrap().push_back(s);
                            }
                            continue;
                        }
                        Call::PrivReap => {
                            let got = mailbox.lock().unwrap().pop_front();
                            drop(got);
                            continue;
                        }
                        Call::PrivQuery { .. } => match private.iter().rev().find(|(s, _)| *s == op.slot) {
                            Some((_, inst)) => exec(&**inst, &reference_twin(op)),
                            None => continue,
                        },
                        _ => exec(&*shared[op.slot], op),
                    };
                    let step = baton.step();
                    let want = &table.outs[table.idx[t][i]];
                    events.lock().unwrap().push(Event { step, thread: t, op: i, digest: out.digest() });
                    // an operation carrying an element-operation fault is a fault injected into the
                    // history of the others; its own outcome is not compared (see `Op::elem_fault`)
                    if op.elem_fault == 0 && !out.same_answer(want) {
                        viols.lock().unwrap().push(Violation {
                            property: "C17".into(),
                            kind: "result-mismatch".into(),
                            detail: mismatch_detail(op, &spec.slots[op.slot], want, &out),
                            thread: t,
                            op: i,
                            step,
                        });
                        baton.request_stop();
                    }
                    let failed = out.class != Class::Ok;
                    outs.lock().unwrap().push((t, i, step, out));
                    if failed && th.crash_on_fault && i + 1 < th.ops.len() {
                        // the client dies right after a fault, abandoning the rest of its work
                        *crashed.lock().unwrap() += 1;
                        break;
                    }
                }
            });
        }
        if !baton.supervise(opts.patience) {
            // A client thread is blocked for good. It cannot be killed, so the process ends here;
            // the driver decides what that means (exit code 3 + this line).
            println!("HUNG run={} nest={}", CURRENT_RUN.load(std::sync::atomic::Ordering::Relaxed), spec_has_nest(spec) && !stub::NO_NEST.load(std::sync::atomic::Ordering::Relaxed));
            std::process::exit(3);
        }
    });
    let summary = baton.summary();
    res.trace = summary.trace;
    res.lost_control = summary.lost_control;
    res.deviated = summary.deviated;
    res.steps = res.trace.len();
    res.events = events.into_inner().unwrap();
    res.events.sort_by_key(|e| (e.step, e.thread, e.op));
    let outs = outs.into_inner().unwrap();
    res.compared = outs.len();
    res.counters.add("fault.crash.fired", *crashed.lock().unwrap());
    res.counters.add("sched.switches", summary.switches as u64);
    res.counters.add("sched.element_operation_switches", summary.elem_switches as u64);
    res.counters.add("fault.stall.fired", if summary.stall_hits > 0 { 1 } else { 0 });
    res.counters.add("fault.stall.decisions_withheld", summary.stall_hits as u64);
    res.counters.add("reach.callback_interleaved_with_foreign_operation", summary.callback_switches as u64);
    if summary.lost_control {
        res.counters.add("sched.lost_control", 1);
        LOST_ONCE.store(true, std::sync::atomic::Ordering::Relaxed);
    }
    for (t, i, _, out) in &outs {
        probe_counters(spec, &spec.threads[*t].ops[*i], out, &mut res.counters);
    }
    let mut v = viols.into_inner().unwrap();
    for (t, i, step, out) in &outs {
        check_nested(spec, &spec.threads[*t].ops[*i], out, prop, *t, *i, *step, &mut nest_cache, &mut v);
    }
    v.sort_by_key(|x| (x.step, x.thread, x.op));
    if prop == Prop::C17 {
        res.violations.extend(v);
    } else {
        // C18: a mismatch with the solitary execution on a probe slot is a misrouted fault /
        // cross-talk between concurrent operations
        for mut x in v {
            if x.property == "C18" {
                // found by the checks over re-entrant calls
                res.violations.push(x);
                continue;
            }
            let op = &spec.threads[x.thread].ops[x.op];
            if spec.slots[op.slot].kind.is_probe() {
                x.property = "C18".into();
                x.kind = "concurrent-operation-affected".into();
                res.violations.push(x);
            }
        }
        for (t, i, step, out) in &outs {
            let op = &spec.threads[*t].ops[*i];
            check_c18(op, &spec.slots[op.slot], out, *t, *i, *step, &mut res.violations);
        }
    }
    if !res.violations.is_empty() {
        return res;
    }
    if prop == Prop::C17 {
        // ---- epilogue: the shared instances after the storm answer as pristine ones --------
        for (k, op) in table.ops.iter().enumerate().take(8) {
            let out = exec(&*shared[op.slot], op);
            res.compared += 1;
            if op.elem_fault == 0 && !out.same_answer(&table.outs[k]) {
                res.violations.push(Violation {
                    property: "C17".into(),
                    kind: "result-mismatch".into(),
                    detail: format!("epilogue (after all threads finished): {}", mismatch_detail(op, &spec.slots[op.slot], &table.outs[k], &out)),
                    thread: usize::MAX,
                    op: k,
                    step: res.steps,
                });
                return res;
            }
        }
        // ---- reference stability: new pristine instances, reverse order ----------------------
        if let Ok(t2) = tabulate(spec, true) {
            for k in 0..table.ops.len() {
                if table.ops[k].elem_fault == 0 && !t2.outs[k].same_answer(&table.outs[k]) {
                    res.violations.push(Violation {
                        property: "C17".into(),
                        kind: "reference-unstable".into(),
                        detail: format!("pristine instances disagree before/after the run: {}", mismatch_detail(&table.ops[k], &spec.slots[table.ops[k].slot], &table.outs[k], &t2.outs[k])),
                        thread: usize::MAX,
                        op: k,
                        step: res.steps,
                    });
                    return res;
                }
            }
        }
    }
    if prop == Prop::C17 && opts.fresh_process && res.violations.is_empty() {
        fresh_process_check(spec, &mut res);
    }
    drop(shared);
    drop(ballast);
    res
}

//! Seeded generation of worlds: slot configurations, hot keys, operations, fault plans, thread
//! splits and scheduling policies. Swarm style: everything varies per run, including which fault
//! kinds are enabled at all.

use crate::rng::Rng;
use crate::slots::supported;
use crate::types::*;

#[derive(Clone, Copy, PartialEq, Eq, Debug)]
pub enum Mode {
    /// C17, engine A
    C17,
    /// C17, engine B (Miri): small worlds, built-in strategies only
    C17Miri,
    /// C18: probe strategies only, pairwise distinct query values
    C18,
}

/// fault kinds enabled for a run (swarm)
#[derive(Clone, Copy, Debug)]
pub struct Faults {
    pub oob: bool,
    pub badbuf: bool,
    pub strat_err: bool,
    pub strat_panic: bool,
    pub crash: bool,
    pub stall: bool,
    pub cow: bool,
    pub badidx: bool,
    pub mismatch: bool,
    /// other interpolators are built over the same storage while this one is being queried
    pub sibling: bool,
    /// a stub-strategy callback calls back into the interpolator it was handed (re-entrancy)
    pub reenter: bool,
    /// an element operation of a user-defined numeric type panics in the middle of a call
    pub elem_panic: bool,
}

impl Faults {
    fn draw(r: &mut Rng, mode: Mode) -> Faults {
        match mode {
            Mode::C18 => Faults {
                oob: false,
                badbuf: false,
                strat_err: false, // C18 fault plans are enumerated by the engine, not drawn here
                strat_panic: false,
                crash: false,
                stall: r.chance(1, 4),
                cow: false,
                badidx: false,
                mismatch: false,
                sibling: false,
                reenter: false, // enumerated by the engine (nest@k variants)
                elem_panic: false,
            },
            _ => Faults {
                oob: r.chance(3, 4),
                badbuf: r.chance(1, 2),
                strat_err: r.chance(1, 2),
                strat_panic: r.chance(1, 3),
                crash: r.chance(1, 4),
                stall: r.chance(1, 4),
                cow: r.chance(1, 2),
                badidx: r.chance(1, 4),
                mismatch: r.chance(1, 4),
                sibling: r.chance(1, 2),
                reenter: mode == Mode::C17 && r.chance(1, 2),
                elem_panic: mode == Mode::C17 && r.chance(1, 2),
            },
        }
    }
}

fn dyadic(r: &mut Rng, span: i64) -> f64 {
    // multiples of 1/16 in [-span, span]
    let n = r.below((2 * span * 16 + 1) as usize) as i64 - span * 16;
    n as f64 / 16.0
}

fn full_mantissa(r: &mut Rng, span: f64) -> f64 {
    (r.unit() * 2.0 - 1.0) * span
}

fn gen_axis(r: &mut Rng, n: usize, f32ok: bool) -> Vec<f64> {
    let style = r.weighted(&[3, 2, 2, 3]);
    let mut v: Vec<f64> = match style {
        0 => {
            let x0 = *r.pick(&[0.0, -3.0, 1.5, 100.0, -0.25, -0.0]);
            let h = *r.pick(&[1.0, 0.5, 0.25, 2.0, 0.1, 3.0]);
            (0..n).map(|i| x0 + i as f64 * h).collect()
        }
        1 => {
            let x0 = *r.pick(&[1.0, 0.001, 2.0]);
            let q = *r.pick(&[2.0, 10.0, 1.5]);
            (0..n).map(|i| x0 * f64::powi(q, i as i32)).collect()
        }
        2 => {
            // clustered: some knots extremely close together
            let mut v = vec![];
            let mut x = dyadic(r, 4);
            for _ in 0..n {
                v.push(x);
                x += if r.chance(1, 3) { if f32ok { 1e-3 } else { 1e-9 } } else { 0.5 + r.below(4) as f64 };
            }
            v
        }
        _ => {
            let mut v: Vec<f64> = vec![];
            while v.len() < n {
                let c = if r.chance(1, 2) { dyadic(r, 8) } else { full_mantissa(r, 8.0) };
                let c = if f32ok { c as f32 as f64 } else { c };
                if !v.iter().any(|&o| o == c) {
                    v.push(c);
                }
            }
            v.sort_by(|a, b| a.partial_cmp(b).unwrap());
            v
        }
    };
    if f32ok {
        for x in v.iter_mut() {
            *x = *x as f32 as f64;
        }
        // keep strictly increasing after rounding
        for i in 1..v.len() {
            if !(v[i - 1] < v[i]) {
                v[i] = v[i - 1] + 1.0;
            }
        }
    }
    v
}

fn gen_values(r: &mut Rng, n: usize, f32ok: bool) -> Vec<f64> {
    let dy = r.chance(1, 2);
    (0..n)
        .map(|_| {
            let v = if dy { dyadic(r, 8) } else { full_mantissa(r, 10.0) };
            if f32ok {
                v as f32 as f64
            } else {
                v
            }
        })
        .collect()
}

fn gen_single(r: &mut Rng) -> SingleB {
    match r.below(5) {
        0 => SingleB::NotAKnot,
        1 => SingleB::Natural,
        2 => SingleB::Clamped,
        3 => SingleB::First(Fb(dyadic(r, 2))),
        _ => SingleB::Second(Fb(dyadic(r, 2))),
    }
}

pub fn gen_slot(r: &mut Rng, mode: Mode) -> SlotCfg {
    gen_slot_ex(r, mode, false)
}

/// `force_long`: an axis of 16-40 knots (2-D: 16-22 per axis), whatever the mode
pub fn gen_slot_ex(r: &mut Rng, mode: Mode, force_long: bool) -> SlotCfg {
    loop {
        let kind = match mode {
            Mode::C18 => *r.pick(&[Kind::Probe1, Kind::Probe1, Kind::Probe2]),
            Mode::C17Miri => *r.pick(&[Kind::Linear, Kind::Spline, Kind::Spline, Kind::Bilinear]),
            Mode::C17 => [Kind::Linear, Kind::Spline, Kind::Bilinear, Kind::Probe1, Kind::Probe2][r.weighted(&[4, 5, 3, 2, 1])],
        };
        let elem = if kind.is_probe() {
            Elem::F64
        } else {
            // Yf (yielding element type) only makes sense under the baton
            [Elem::F64, Elem::F32, Elem::Yf, Elem::I64][r.weighted(&[12, 2, if mode == Mode::C17 { 6 } else { 0 }, if kind != Kind::Spline { 1 } else { 0 }])]
        };
        let storage = [Storage::Owned, Storage::View, Storage::Shared, Storage::DataView][r.weighted(&[4, 2, 3, 1])];
        let dimty = [DimTy::Ix1, DimTy::Ix2, DimTy::Ix3, DimTy::Ix4, DimTy::Ix5, DimTy::IxDyn][r.weighted(&[4, 4, 4, if mode == Mode::C17Miri { 0 } else { 2 }, if mode == Mode::C17Miri { 0 } else { 1 }, 4])];
        let probe_min = r.below(5);
        if !supported(kind, elem, storage, dimty, probe_min) {
            continue;
        }
        let two = kind.is_2d();
        let f32ok = elem == Elem::F32;
        let small = mode == Mode::C17Miri;
        // number of points
        let min_pts = match kind {
            Kind::Spline => 3,
            Kind::Probe1 | Kind::Probe2 => probe_min.max(2),
            _ => 2,
        };
        let max_pts = if small { 5 } else if two { 5 } else { 9 };
        // rarely a long axis (tables, buckets and pools inside the crate may have size thresholds);
        // long 2-D grids are square, so that default axes coincide
        let long = force_long || (!small && mode == Mode::C17 && r.chance(1, 10));
        // ... and among the long ones some VERY long ones (tables that only exist above 64 or 128 knots)
        let very_long = long && !two && (if force_long { r.chance(1, 3) } else { r.chance(1, 4) });
        let nx = if very_long { r.range(64, 200) } else if long { r.range(16, if two { 22 } else { 40 }) } else { r.range(min_pts, max_pts.max(min_pts)) };
        let ny = if !two { 0 } else if long { nx } else { r.range(min_pts, max_pts.max(min_pts)) };
        // trailing axes
        let n_trailing = match (dimty, two) {
            (DimTy::Ix1, _) => 0,
            (DimTy::Ix2, false) => 1,
            (DimTy::Ix2, true) => 0,
            (DimTy::Ix3, false) => 2,
            (DimTy::Ix3, true) => 1,
            (DimTy::Ix4, false) => 3,
            (DimTy::Ix4, true) => 2,
            (DimTy::Ix5, false) => 4,
            (DimTy::Ix5, true) => 3,
            (DimTy::IxDyn, false) => r.below(if small { 2 } else { 4 }),
            (DimTy::IxDyn, true) => r.below(if small { 2 } else { 3 }),
        };
        let mut shape = vec![nx];
        if two {
            shape.push(ny);
        }
        for _ in 0..n_trailing {
            // length 0 is legal and rare; 1..3 common
            let l = if r.chance(1, 12) { 0 } else { r.range(1, if small || n_trailing >= 3 { 2 } else { 3 }) };
            shape.push(l);
        }
        let lanes: usize = shape[if two { 2 } else { 1 }..].iter().product();
        let total: usize = shape.iter().product();
        let explicit_x = if long && two { r.chance(1, 2) } else { r.chance(3, 4) };
        let int = elem == Elem::I64;
        let int_axis = |r: &mut Rng, n: usize| -> Vec<f64> {
            let mut v = vec![];
            let mut x = r.below(21) as f64 - 10.0;
            for _ in 0..n {
                v.push(x);
                x += r.range(1, 4) as f64;
            }
            v
        };
        let x = if explicit_x { Some(if int { int_axis(r, nx) } else { gen_axis(r, nx, f32ok) }.into_iter().map(Fb).collect()) } else { None };
        // 2-D: default axes only together (the builder's `new` provides both)
        let y = if two && explicit_x { Some(if int { int_axis(r, ny) } else { gen_axis(r, ny, f32ok) }.into_iter().map(Fb).collect()) } else { None };
        let mut data = gen_values(r, total, f32ok);
        if int {
            for d in data.iter_mut() {
                *d = (*d * 10.0).round();
            }
        } else if r.chance(1, 30) && total > 0 && kind != Kind::Spline {
            // a non-finite data value somewhere (legal data; results are NaN/inf around it)
            let i = r.below(total);
            data[i] = *r.pick(&[f64::NAN, f64::INFINITY, f64::NEG_INFINITY]);
        }
        let extrapolate = r.chance(1, 2);
        let bc = if kind == Kind::Spline {
            match r.weighted(&[3, 2, 2, 2, 2]) {
                0 => Bc::NotAKnot,
                1 => Bc::Natural,
                2 => Bc::Clamped,
                3 => Bc::Periodic,
                _ => Bc::Individual(
                    (0..lanes)
                        .map(|_| match r.below(4) {
                            0 => RowB::NotAKnot,
                            1 => RowB::Natural,
                            2 => RowB::Clamped,
                            _ => RowB::Mixed(gen_single(r), gen_single(r)),
                        })
                        .collect(),
                ),
            }
        } else {
            Bc::NotAKnot
        };
        if kind == Kind::Spline && bc != Bc::Periodic && r.chance(1, 30) && total > 0 {
            let i = r.below(total);
            data[i] = *r.pick(&[f64::NAN, f64::INFINITY, f64::NEG_INFINITY]);
        }
        if bc == Bc::Periodic {
            // first and last row must be equal
            for l in 0..lanes {
                data[(nx - 1) * lanes + l] = data[l];
            }
        } else if !two && r.chance(1, 5) {
            // "nearly periodic" data: legal for every strategy but Periodic, and one rounding error
            // away from being accepted by a Periodic sibling built over the same storage
            let rel = *r.pick(&[0.0, 1e-7, 1e-9, 1e-12, 2.3e-16]);
            for l in 0..lanes {
                let v = data[l] * (1.0 + rel);
                data[(nx - 1) * lanes + l] = if f32ok { v as f32 as f64 } else { v };
            }
        }
        return SlotCfg {
            kind,
            elem,
            storage,
            dimty,
            shape,
            x,
            y,
            data: data.into_iter().map(Fb).collect(),
            extrapolate,
            bc,
            probe_min,
            build_plan: BuildPlan::Ok,
            data_lay: match storage {
                Storage::Owned | Storage::Shared => {
                    let mix = gen_mix(r, false);
                    [Lay::C, Lay::F, mix][r.weighted(&[5, 1, 2])]
                }
                _ => {
                    let mix = gen_mix(r, true);
                    [Lay::C, Lay::F, Lay::Window, Lay::Step2, Lay::Rev, mix, Lay::Wide][r.weighted(&[5, 1, 1, 1, 1, 3, 1])]
                }
            },
            x_lay: if storage == Storage::View { [Lay::C, Lay::Step2, Lay::Rev, Lay::Wide, Lay::WideRev][r.weighted(&[6, 1, 1, 1, 1])] } else { Lay::C },
            build_order: [0u8, 1, 2, 3][r.weighted(&[5, 2, 2, 1])],
        };
    }
}

/// a relative of `base`: one aspect changed, everything else (in particular the length and the
/// end points of the axes) kept
pub fn mutate_slot(r: &mut Rng, base: SlotCfg) -> SlotCfg {
    let mut c = base;
    let two = c.kind.is_2d();
    let lanes: usize = c.trailing().iter().product();
    let nx = c.shape[0];
    match r.below(7) {
        6 => {
            // the same values in another order: rows reversed, two rows exchanged, rows rotated,
            // or two lanes exchanged (anything keyed by an order-insensitive digest of the data collides)
            let rows = nx;
            let row_len = if rows > 0 { c.data.len() / rows } else { 0 };
            if rows >= 2 && row_len >= 1 && !two {
                let mut rowsv: Vec<Vec<Fb>> = c.data.chunks(row_len).map(|ch| ch.to_vec()).collect();
                match r.below(4) {
                    0 => rowsv.reverse(),
                    1 => {
                        // exchange two interior rows (keeps a periodic closure intact)
                        if rows >= 4 {
                            let i = r.range(1, rows - 3);
                            rowsv.swap(i, i + 1);
                        } else {
                            rowsv.reverse();
                        }
                    }
                    2 if c.bc != Bc::Periodic => {
                        let k = r.range(1, rows - 1);
                        rowsv.rotate_left(k);
                    }
                    _ => {
                        if row_len >= 2 {
                            for rw in rowsv.iter_mut() {
                                rw.swap(0, row_len - 1);
                            }
                        } else {
                            rowsv.reverse();
                        }
                    }
                }
                c.data = rowsv.into_iter().flatten().collect();
            }
        }
        0 | 1 => {
            // other interior knots, same end points
            let mut ax = c.axis_x();
            if ax.len() >= 3 && c.elem != Elem::I64 {
                for i in 1..ax.len() - 1 {
                    let (lo, hi) = (ax[i - 1], ax[i + 1]);
                    let v = lo + (hi - lo) * (0.1 + 0.8 * r.unit());
                    let v = if c.elem == Elem::F32 { v as f32 as f64 } else { v };
                    if lo < v && v < hi {
                        ax[i] = v;
                    }
                }
                c.x = Some(ax.into_iter().map(Fb).collect());
                if two && c.y.is_none() {
                    c.y = Some(c.axis_y().into_iter().map(Fb).collect());
                }
            }
        }
        2 => {
            // same axes, other data (periodic closure preserved)
            let f32ok = c.elem == Elem::F32;
            for (i, d) in c.data.iter_mut().enumerate() {
                let keep_closed = !two && c.bc == Bc::Periodic && (i < lanes || i >= (nx - 1) * lanes);
                if !keep_closed {
                    let v = d.0 + (r.unit() - 0.5) * 3.0;
                    *d = Fb(if f32ok { v as f32 as f64 } else { v });
                }
            }
        }
        3 => {
            // one data value changed
            if !c.data.is_empty() {
                let i = r.below(c.data.len());
                let periodic_end = !two && c.bc == Bc::Periodic && (i < lanes || i >= (nx - 1) * lanes);
                if !periodic_end {
                    c.data[i] = Fb(c.data[i].0 + 1.0);
                }
            }
        }
        4 => {
            // other boundary condition / extrapolation flag
            c.extrapolate = !c.extrapolate;
            if c.kind == Kind::Spline && c.bc != Bc::Periodic {
                c.bc = [Bc::NotAKnot, Bc::Natural, Bc::Clamped][r.below(3)].clone();
            }
        }
        _ => {
            // other storage kind, same everything else
            let st = [Storage::Owned, Storage::View, Storage::Shared, Storage::DataView][r.below(4)];
            if supported(c.kind, c.elem, st, c.dimty, c.probe_min) {
                c.storage = st;
                c.data_lay = Lay::C;
                c.x_lay = Lay::C;
            }
        }
    }
    c
}

/// a few query values per axis on which all threads collide
pub fn hot_keys(r: &mut Rng, axis: &[f64], n: usize, faults: &Faults, f32ok: bool) -> Vec<f64> {
    let lo = axis[0];
    let hi = axis[axis.len() - 1];
    let mut keys = vec![];
    let mut guard = 0;
    while keys.len() < n && guard < 200 {
        guard += 1;
        let i = r.below(axis.len());
        let v = match r.weighted(&[4, 6, 2, 2, 2, if faults.oob { 5 } else { 0 }, if faults.oob { 1 } else { 0 }, 3]) {
            0 => axis[i],
            1 => {
                let j = r.below(axis.len() - 1);
                let t = *r.pick(&[0.5, 0.25, 0.75, 0.1]);
                axis[j] + (axis[j + 1] - axis[j]) * t
            }
            2 => next_up(axis[i]),
            3 => next_down(axis[i]),
            4 => *r.pick(&[lo, hi]),
            5 => {
                // outside the range: far, near, and just outside at several relative distances
                let span = hi - lo;
                let eps = *r.pick(&[1e-12, 1e-9, 1e-7, 1e-5, 1e-3]);
                *r.pick(&[lo - 1.0, hi + 1.0, lo - 1e-9 * (1.0 + lo.abs()), hi + 1e6, next_down(lo), next_up(hi), lo - 2.5 * span, hi + 3.25 * span, lo - eps * span, hi + eps * span, lo - eps * span, hi + eps * span])
            }
            6 => *r.pick(&[f64::NAN, f64::INFINITY, f64::NEG_INFINITY, -0.0, 0.0, 5e-324, -2.2250738585072014e-308]),
            _ => lo + (hi - lo) * r.unit(),
        };
        let v = if f32ok { v as f32 as f64 } else { v };
        if !keys.iter().any(|k: &f64| k.to_bits() == v.to_bits()) {
            keys.push(v);
        }
    }
    keys
}

fn gen_qshape(r: &mut Rng, ty: QTy, max_elems: usize) -> Vec<usize> {
    let nd = match ty {
        QTy::Q0 => 0,
        QTy::Q1 => 1,
        QTy::Q2 => 2,
        QTy::Q3 => 3,
        QTy::QDyn => r.weighted(&[1, 4, 2, 1]),
    };
    loop {
        let s: Vec<usize> = (0..nd)
            .map(|_| if r.chance(1, 16) { 0 } else { r.range(1, if nd == 1 { max_elems.min(6) } else { 3 }) })
            .collect();
        if s.iter().product::<usize>() <= max_elems {
            return s;
        }
    }
}

fn gen_lay(r: &mut Rng) -> Lay {
    let mix = gen_mix(r, true);
    [Lay::C, Lay::Window, Lay::F, Lay::Step2, Lay::Rev, mix][r.weighted(&[8, 2, 1, 1, 1, 2])]
}

/// a general layout: axes permuted in memory, some reversed, some (views only) stepped
fn gen_mix(r: &mut Rng, steps: bool) -> Lay {
    Lay::Mix { perm: r.below(720) as u16, rev: if r.chance(1, 2) { r.below(64) as u8 } else { 0 }, step: if steps && r.chance(1, 3) { r.below(64) as u8 } else { 0 } }
}

struct SlotCtx {
    keys_x: Vec<f64>,
    keys_y: Vec<f64>,
    two: bool,
    trailing: Vec<usize>,
    nx: usize,
    ny: usize,
    probe: bool,
    shared: bool,
    can_sibling: bool,
    f32ok: bool,
    lo_hi_x: (f64, f64),
    lo_hi_y: (f64, f64),
}

fn gen_buf(r: &mut Rng, exact_shape: &[usize], faults: &Faults, dynamic: bool) -> BufSpec {
    if !faults.badbuf || r.chance(2, 3) {
        return BufSpec { shape: exact_shape.to_vec(), lay: Lay::C, exact: true };
    }
    let mut shape = exact_shape.to_vec();
    let mut lay = Lay::C;
    let mut exact = false;
    match r.below(6) {
        0 if !shape.is_empty() => {
            let k = r.below(shape.len());
            shape[k] += 1;
        }
        1 if !shape.is_empty() => {
            let k = r.below(shape.len());
            shape[k] = shape[k].saturating_sub(1);
            if shape == exact_shape {
                shape[k] += 2;
            }
        }
        2 if shape.len() >= 2 => {
            let k = r.below(shape.len() - 1);
            shape.swap(k, k + 1);
            exact = shape == exact_shape;
        }
        3 if dynamic => {
            if r.chance(1, 2) || shape.is_empty() {
                shape.push(r.range(1, 2));
            } else {
                shape.pop();
            }
        }
        _ => {
            // right shape, unusual memory layout
            let mix = gen_mix(r, true);
            lay = *r.pick(&[Lay::Window, Lay::F, Lay::Step2, Lay::Rev, mix, mix]);
            exact = true;
        }
    }
    BufSpec { shape, lay, exact }
}

fn gen_call(r: &mut Rng, sc: &SlotCtx, faults: &Faults, mode: Mode) -> Call {
    let kx = |r: &mut Rng| Fb(*r.pick(&sc.keys_x));
    let ky = |r: &mut Rng| if sc.two { Fb(*r.pick(&sc.keys_y)) } else { Fb(0.0) };
    let sib_w = if faults.sibling && sc.can_sibling { 2 } else { 0 };
    let w: [usize; 10] = match mode {
        Mode::C18 => [2, 2, 2, 5, 5, 0, 0, 0, 0, 0],
        Mode::C17Miri => [3, 2, 1, 3, 2, 1, 2, 1, if faults.cow && sc.shared { 1 } else { 0 }, sib_w],
        Mode::C17 => [3, 3, 2, 5, 4, 1, 2, 1, if faults.cow && sc.shared { 2 } else { 0 }, sib_w],
    };
    match r.weighted(&w) {
        0 => Call::Scalar { x: kx(r), y: ky(r) },
        1 => Call::Interp { x: kx(r), y: ky(r) },
        2 => Call::InterpInto { x: kx(r), y: ky(r), buf: gen_buf(r, &sc.trailing, faults, false) },
        3 if sc.two && mode != Mode::C18 && r.chance(1, 4) => Call::Array { q: mesh_query(r, &sc.keys_x, &sc.keys_y, 3) },
        k @ (3 | 4) => {
            let ty = [QTy::Q0, QTy::Q1, QTy::Q2, QTy::Q3, QTy::QDyn][r.weighted(&[1, 5, 2, 1, 3])];
            let max_elems = if mode == Mode::C17Miri { 6 } else { 12 };
            // rarely a long rank-1 batch: counters and thresholds inside the crate need volume
            let big = (mode == Mode::C17 && r.chance(1, 40)) || (mode == Mode::C18 && r.chance(1, 25));
            let ty = if big { *r.pick(&[QTy::Q1, QTy::Q1, QTy::QDyn, QTy::Q2]) } else { ty };
            let shape = if !big {
                gen_qshape(r, ty, max_elems)
            } else if ty == QTy::Q2 {
                // size thresholds inside the crate (chunking, parallel paths) also apply to n-d batches
                vec![r.range(5, 40), r.range(3, 12)]
            } else {
                vec![r.range(40, 400)]
            };
            let n: usize = shape.iter().product();
            let (xs, ys): (Vec<Fb>, Vec<Fb>) = if mode == Mode::C18 {
                // pairwise distinct query elements: every written value is attributable
                let mut xs: Vec<f64> = vec![];
                let mut ys: Vec<f64> = vec![];
                let mut tries = 0;
                // since the stub's values carry the callback index, repeated query values are
                // attributable too: a third of the batches may repeat elements (runs of equal values)
                let allow_dup = r.chance(1, 3);
                while xs.len() < n {
                    tries += 1;
                    if big {
                        // many elements: an increasing sequence (pairwise distinct by construction), shuffled below
                        let k = xs.len() as f64;
                        xs.push(sc.lo_hi_x.0 + (sc.lo_hi_x.1 - sc.lo_hi_x.0) * ((k + r.unit() * 0.9) / n as f64 * 1.2 - 0.1));
                        ys.push(if sc.two { sc.lo_hi_y.0 + (sc.lo_hi_y.1 - sc.lo_hi_y.0) * r.unit() } else { 0.0 });
                        continue;
                    }
                    if allow_dup && !xs.is_empty() && r.chance(1, 2) {
                        let j = if r.chance(2, 3) { xs.len() - 1 } else { r.below(xs.len()) };
                        let (x, y) = (xs[j], ys[j]);
                        xs.push(x);
                        ys.push(y);
                        continue;
                    }
                    let x = if tries < 40 && r.chance(2, 3) { *r.pick(&sc.keys_x) } else { sc.lo_hi_x.0 + (sc.lo_hi_x.1 - sc.lo_hi_x.0) * (r.unit() * 1.5 - 0.25) };
                    let y = if !sc.two { 0.0 } else if tries < 40 && r.chance(2, 3) { *r.pick(&sc.keys_y) } else { sc.lo_hi_y.0 + (sc.lo_hi_y.1 - sc.lo_hi_y.0) * (r.unit() * 1.5 - 0.25) };
                    let dup = xs.iter().zip(ys.iter()).any(|(a, b)| canon(a.to_bits()) == canon(x.to_bits()) && canon(b.to_bits()) == canon(y.to_bits()));
                    if !dup {
                        xs.push(x);
                        ys.push(y);
                    }
                }
                (xs.into_iter().map(Fb).collect(), if sc.two { ys.into_iter().map(Fb).collect() } else { vec![] })
            } else {
                let inr = |r: &mut Rng, lh: (f64, f64)| Fb(lh.0 + (lh.1 - lh.0) * r.unit());
                (
                    (0..n).map(|_| if big && r.chance(1, 2) { inr(r, sc.lo_hi_x) } else { kx(r) }).collect(),
                    if sc.two { (0..n).map(|_| if big && r.chance(1, 2) { inr(r, sc.lo_hi_y) } else { ky(r) }).collect() } else { vec![] },
                )
            };
            // xs and ys get independent memory layouts (same layout in half of the cases)
            let lay = gen_lay(r);
            let ys_lay = if !sc.two { Lay::C } else if r.chance(1, 2) { lay } else { let mix = gen_mix(r, true); [Lay::C, Lay::Window, Lay::F, Lay::Step2, Lay::Rev, mix][r.weighted(&[3, 1, 3, 1, 1, 2])] };
            let mut q = QSpec { ty, shape: shape.clone(), xs, ys, ys_shape: None, lay, ys_lay };
            if sc.two && faults.mismatch && r.chance(1, 10) && mode != Mode::C18 {
                // xs and ys of different shapes: documented panic
                let mut s2 = shape.clone();
                if s2.is_empty() {
                    // rank 0 cannot mismatch
                } else {
                    s2[0] += 1;
                    let n2: usize = s2.iter().product();
                    q.ys = (0..n2).map(|_| ky(r)).collect();
                    q.ys_shape = Some(s2);
                }
            }
            if k == 3 {
                Call::Array { q }
            } else {
                let mut exact: Vec<usize> = shape;
                exact.extend_from_slice(&sc.trailing);
                let dynamic = ty == QTy::QDyn; // output dim type is dynamic iff query or data is; data side handled by caller
                let buf = gen_buf(r, &exact, faults, dynamic);
                Call::ArrayInto { q, buf }
            }
        }
        5 => {
            let oob = faults.badidx && r.chance(1, 3);
            Call::IndexPoint { i: if oob { sc.nx + r.below(2) } else { r.below(sc.nx) }, j: if sc.two { r.below(sc.ny) } else { 0 } }
        }
        6 => Call::IndexLeftOf { x: kx(r), y: ky(r) },
        7 => Call::InRange { x: kx(r), y: ky(r) },
        8 => Call::Cow,
        _ => gen_sibling(r, sc),
    }
}

/// a mesh-grid query over a few x and y keys (the usual way to evaluate a 2-D interpolator): in
/// row-major order the x coordinate stays the same for a whole run of consecutive points
fn mesh_query(r: &mut Rng, kx: &[f64], ky: &[f64], max_side: usize) -> QSpec {
    let a = r.range(2, max_side.max(2));
    let b = r.range(2, max_side.max(2));
    let xv: Vec<f64> = (0..a).map(|_| *r.pick(kx)).collect();
    let yv: Vec<f64> = (0..b).map(|_| *r.pick(ky)).collect();
    let mut xs = vec![];
    let mut ys = vec![];
    for &x in xv.iter() {
        for &y in yv.iter() {
            xs.push(Fb(x));
            ys.push(Fb(y));
        }
    }
    let (ty, shape) = match r.weighted(&[3, 2, 1]) {
        0 => (QTy::Q2, vec![a, b]),
        1 => (QTy::Q1, vec![a * b]),
        _ => (QTy::QDyn, vec![a, b]),
    };
    QSpec { ty, shape, xs, ys, ys_shape: None, lay: Lay::C, ys_lay: Lay::C }
}

fn gen_sibling(r: &mut Rng, sc: &SlotCtx) -> Call {
    let x = Fb(*r.pick(&sc.keys_x));
    let extrapolate = r.chance(1, 2);
    if sc.two {
        return Call::Sibling { strat: SibStrat::Bilinear { extrapolate }, x, y: Fb(*r.pick(&sc.keys_y)) };
    }
    let strat = if sc.nx >= 3 && r.chance(3, 4) {
        SibStrat::Spline { bc: [Bc::Periodic, Bc::NotAKnot, Bc::Natural, Bc::Clamped][r.weighted(&[4, 1, 1, 1])].clone(), extrapolate }
    } else {
        SibStrat::Linear { extrapolate }
    };
    Call::Sibling { strat, x, y: Fb(0.0) }
}

/// `gen_call` plus the fix-ups that depend on the slot's static types
fn gen_fixed_call(r: &mut Rng, sc: &SlotCtx, cfg: &SlotCfg, faults: &Faults, mode: Mode) -> Call {
    let mut call = gen_call(r, sc, faults, mode);
    // buffers of dynamic output type may have a wrong rank only if the data side is dynamic too
    if let Call::ArrayInto { q, buf } = &mut call {
        let dynamic_out = q.ty == QTy::QDyn || cfg.dimty == DimTy::IxDyn;
        let exact_nd = q.shape.len() + sc.trailing.len();
        if !dynamic_out && buf.shape.len() != exact_nd {
            let mut s = q.shape.clone();
            s.extend_from_slice(&sc.trailing);
            *buf = BufSpec { shape: s, lay: Lay::C, exact: true };
        }
    }
    if mode == Mode::C18 {
        // correctly shaped buffers of every memory layout
        if let Call::ArrayInto { buf, .. } | Call::InterpInto { buf, .. } = &mut call {
            buf.lay = gen_lay(r);
        }
    }
    call
}

fn gen_nest(r: &mut Rng, sc: &SlotCtx, cfg: &SlotCfg, faults: &Faults, mode: Mode) -> Act {
    let call = gen_fixed_call(r, sc, cfg, faults, mode);
    // a third of the nested calls fail themselves (the strategy returns an error or panics inside
    // the nested call): the OUTER call must not notice
    let m = call.batch_len();
    let plan = if m >= 1 && r.chance(1, 3) {
        let k = r.below(m);
        let mut p = vec![Act::Ok; k];
        p.push(if r.chance(1, 3) { Act::Panic } else { Act::Err(format!("nested-tok-{:08x}", r.next_u64() as u32)) });
        p
    } else {
        vec![]
    };
    Act::Nest { call: Box::new(call), write_first: r.chance(1, 2), plan }
}

/// a re-entrant call for a callback of an operation on `cfg` (C18 fault enumeration)
pub fn gen_nest_for(r: &mut Rng, cfg: &SlotCfg, mode: Mode) -> Act {
    let faults = Faults { oob: false, badbuf: false, strat_err: false, strat_panic: false, crash: false, stall: false, cow: false, badidx: false, mismatch: false, sibling: false, reenter: true, elem_panic: false };
    let sc = slot_ctx(r, cfg, &faults, mode);
    gen_nest(r, &sc, cfg, &faults, mode)
}

fn slot_ctx(r: &mut Rng, cfg: &SlotCfg, faults: &Faults, mode: Mode) -> SlotCtx {
    let ax = cfg.axis_x();
    let ay = if cfg.kind.is_2d() { cfg.axis_y() } else { vec![0.0, 1.0] };
    let f32ok = cfg.elem == Elem::F32;
    let nk = if mode == Mode::C17Miri { r.range(2, 4) } else { r.range(2, 5) };
    let mut f = *faults;
    // a non-extrapolating strategy turns out-of-range keys into errors; an extrapolating one
    // evaluates them. NaN on an extrapolating strategy panics inside the library (deterministic).
    if cfg.kind.is_probe() {
        f.oob = true; // any value is a legal query for a user strategy
    }
    SlotCtx {
        keys_x: hot_keys(r, &ax, nk, &f, f32ok),
        keys_y: hot_keys(r, &ay, nk, &f, f32ok),
        two: cfg.kind.is_2d(),
        trailing: cfg.trailing(),
        nx: ax.len(),
        ny: ay.len(),
        probe: cfg.kind.is_probe(),
        shared: cfg.storage == Storage::Shared,
        can_sibling: cfg.storage != Storage::Owned && cfg.elem == Elem::F64,
        f32ok,
        lo_hi_x: (ax[0], ax[ax.len() - 1]),
        lo_hi_y: (ay[0], ay[ay.len() - 1]),
    }
}

pub fn gen_sched(r: &mut Rng, n_threads: usize, horizon: usize) -> Sched {
    if n_threads <= 1 {
        return Sched::Serial { order: (0..n_threads).collect() };
    }
    match r.weighted(&[4, 3, 3, 1, 2]) {
        0 => Sched::Uniform { seed: r.next_u64() },
        1 => Sched::Sticky { seed: r.next_u64(), stay: r.range(8, 15) },
        2 => Sched::Pct { seed: r.next_u64(), depth: r.range(1, 4), horizon: horizon.max(1) },
        3 => Sched::RoundRobin { quantum: r.range(1, 3) },
        _ => {
            let mut order: Vec<usize> = (0..n_threads).collect();
            r.shuffle(&mut order);
            Sched::Serial { order }
        }
    }
}

pub struct Generated {
    pub spec: RunSpec,
    pub faults: Faults,
}

/// Engine B "hammer" workload: one interpolator, 2-3 threads, many cheap in-range calls on 2-3
/// hot keys that lie in different segments. Narrow race windows need many colliding calls, and
/// under Miri the fixed start-up cost dominates, so a dense workload is the efficient one.
/// Engine B workloads are stratified by their index, so that even a handful of them covers every
/// built-in strategy: index % 4 selects Linear / CubicSpline / Bilinear / any, and two of three
/// are dense "hammer" workloads.
pub fn gen_miri(seed: u64, index: u64) -> Generated {
    let want = [Some(Kind::Linear), Some(Kind::Spline), Some(Kind::Bilinear), None][(index % 4) as usize];
    let hammer = (index / 4) % 3 != 2;
    let mut r = Rng::new(seed);
    if hammer {
        return gen_hammer(&mut r, want);
    }
    loop {
        let g = gen_run_inner(r.next_u64(), Mode::C17Miri);
        if want.is_none() || g.spec.slots.iter().any(|s| Some(s.kind) == want) {
            return g;
        }
    }
}

/// Engine B workload for C18: one probe-strategy interpolator, 2-3 threads issuing batches, about
/// half of which carry a planned strategy error early in the batch (so that the failing caller
/// spends its time in whatever the library does after an error while the others are mid-batch).
pub fn gen_miri_c18(seed: u64, index: u64) -> Generated {
    // stratified: even workloads use a 1-D probe strategy, odd ones a 2-D one
    let want = if index % 2 == 0 { Kind::Probe1 } else { Kind::Probe2 };
    let mut r = Rng::new(seed);
    let r = &mut r;
    let faults = Faults { oob: false, badbuf: false, strat_err: true, strat_panic: false, crash: false, stall: false, cow: false, badidx: false, mismatch: false, sibling: false, reenter: false, elem_panic: false };
    let cfg = loop {
        let c = gen_slot(r, Mode::C18);
        let lanes: usize = c.trailing().iter().product();
        if c.kind == want && c.shape[0] <= 5 && lanes <= 4 && lanes >= 1 && !matches!(c.dimty, DimTy::Ix4 | DimTy::Ix5) {
            break c;
        }
    };
    let two = cfg.kind.is_2d();
    let ax = cfg.axis_x();
    let ay = if two { cfg.axis_y() } else { vec![0.0, 1.0] };
    let n_threads = r.range(2, 3);
    let mut uniq = 0u32;
    let threads: Vec<ThreadSpec> = (0..n_threads)
        .map(|t| {
            let n_ops = r.range(5, 9);
            let ops = (0..n_ops)
                .map(|i| {
                    let n = r.range(3, 8);
                    // pairwise distinct elements inside the batch
                    let xs: Vec<Fb> = (0..n)
                        .map(|_| {
                            uniq += 1;
                            Fb(ax[0] + (ax[ax.len() - 1] - ax[0]) * r.unit() + uniq as f64 * 1e-9)
                        })
                        .collect();
                    let ys: Vec<Fb> = if two { (0..n).map(|_| Fb(ay[0] + (ay[ay.len() - 1] - ay[0]) * r.unit())).collect() } else { vec![] };
                    let (ty, shape) = match r.weighted(&[4, 2, 2]) {
                        0 => (QTy::Q1, vec![n]),
                        1 => (QTy::QDyn, vec![n]),
                        _ => (QTy::Q2, vec![1, n]),
                    };
                    let q = QSpec { ty, shape, xs, ys, ys_shape: None, lay: Lay::C, ys_lay: Lay::C };
                    let plan = if r.chance(1, 2) {
                        let k = r.below(2.min(n));
                        let mut p = vec![Act::Ok; k];
                        p.push(Act::Err(format!("tok-t{t}-o{i}-k{k}")));
                        p
                    } else {
                        vec![]
                    };
                    Op { slot: 0, call: Call::Array { q }, plan, yield_mask: 0, check_acc: r.chance(1, 4), elem_fault: 0 }
                })
                .collect();
            ThreadSpec { ops, crash_on_fault: false }
        })
        .collect();
    Generated { spec: RunSpec { build_on_thread: vec![], slots: vec![cfg], threads, sched: Sched::RoundRobin { quantum: 1 }, stall: None, ballast: 0 }, faults }
}

fn gen_hammer(r: &mut Rng, want: Option<Kind>) -> Generated {
    let faults = Faults { oob: false, badbuf: false, strat_err: false, strat_panic: false, crash: false, stall: false, cow: false, badidx: false, mismatch: false, sibling: true, reenter: false, elem_panic: false };
    let cfg = loop {
        let c = gen_slot(r, Mode::C17Miri);
        if c.elem == Elem::F64 && (want.is_none() || Some(c.kind) == want) {
            break c;
        }
    };
    let two = cfg.kind.is_2d();
    let ax = cfg.axis_x();
    let ay = if two { cfg.axis_y() } else { vec![0.0, 1.0] };
    // one key strictly inside each of 2-3 distinct segments (plus sometimes a knot)
    let seg_keys = |r: &mut Rng, a: &[f64]| -> Vec<f64> {
        let mut segs: Vec<usize> = (0..a.len() - 1).collect();
        r.shuffle(&mut segs);
        segs.truncate(r.range(2, 3).min(segs.len()));
        let mut k: Vec<f64> = segs.iter().map(|&j| a[j] + (a[j + 1] - a[j]) * *r.pick(&[0.5, 0.25, 0.75])).collect();
        if r.chance(1, 3) {
            k.push(a[r.below(a.len())]);
        }
        k
    };
    let kx = seg_keys(r, &ax);
    let ky = seg_keys(r, &ay);
    let n_threads = r.range(2, 3);
    let mut pool: Vec<Op> = vec![];
    for _ in 0..r.range(3, 6) {
        let x = Fb(*r.pick(&kx));
        let y = if two { Fb(*r.pick(&ky)) } else { Fb(0.0) };
        let call = match r.weighted(&[4, 3, 3, 1]) {
            0 => Call::Scalar { x, y },
            1 => Call::Interp { x, y },
            2 if two && r.chance(1, 2) => Call::Array { q: mesh_query(r, &kx, &ky, 3) },
            2 => {
                let n = r.range(2, 4);
                // mostly the rank-1 fast path; sometimes the general n-d path (static or dynamic)
                let (ty, shape) = match r.weighted(&[6, 2, 2]) {
                    0 => (QTy::Q1, vec![n]),
                    1 => (QTy::QDyn, vec![n]),
                    _ => (QTy::Q2, vec![2, (n + 1) / 2]),
                };
                let n = shape.iter().product::<usize>();
                Call::Array {
                    q: QSpec {
                        ty,
                        shape,
                        xs: (0..n).map(|_| Fb(*r.pick(&kx))).collect(),
                        ys: if two { (0..n).map(|_| Fb(*r.pick(&ky))).collect() } else { vec![] },
                        ys_shape: None,
                        lay: Lay::C,
                        ys_lay: Lay::C,
                    },
                }
            }
            _ => Call::IndexLeftOf { x, y },
        };
        pool.push(Op { slot: 0, call, plan: vec![], yield_mask: 0, check_acc: false, elem_fault: 0 });
    }
    if cfg.storage != Storage::Owned && r.chance(1, 2) {
        // somebody keeps building other interpolators over the same storage meanwhile
        let sc = SlotCtx {
            keys_x: kx.clone(),
            keys_y: ky.clone(),
            two,
            trailing: cfg.trailing(),
            nx: ax.len(),
            ny: ay.len(),
            probe: false,
            shared: cfg.storage == Storage::Shared,
            can_sibling: true,
            f32ok: false,
            lo_hi_x: (ax[0], ax[ax.len() - 1]),
            lo_hi_y: (ay[0], ay[ay.len() - 1]),
        };
        let call = gen_sibling(r, &sc);
        pool.push(Op { slot: 0, call, plan: vec![], yield_mask: 0, check_acc: false, elem_fault: 0 });
    }
    let threads = (0..n_threads)
        .map(|_| ThreadSpec { ops: (0..r.range(10, 18)).map(|_| pool[r.below(pool.len())].clone()).collect(), crash_on_fault: false })
        .collect();
    Generated { spec: RunSpec { build_on_thread: vec![], slots: vec![cfg], threads, sched: Sched::RoundRobin { quantum: 1 }, stall: None, ballast: 0 }, faults }
}

/// Engine C "wide hammer": one interpolator with a LONG axis, one hot key inside each of many
/// segments, 2-4 threads. Caches with a capacity, an associativity or a slot function (segment
/// modulo 8, say) only collide when many different segments are in play at once.
pub fn gen_hammer_wide(seed: u64, want: Option<Kind>) -> Generated {
    let mut r = Rng::new(seed);
    let r = &mut r;
    let faults = Faults { oob: false, badbuf: false, strat_err: false, strat_panic: false, crash: false, stall: false, cow: false, badidx: false, mismatch: false, sibling: false, reenter: false, elem_panic: false };
    let cfg = loop {
        let c = gen_slot_ex(r, Mode::C17Miri, true);
        let lanes: usize = c.trailing().iter().product();
        if c.elem == Elem::F64 && lanes >= 1 && (want.is_none() || Some(c.kind) == want) {
            break c;
        }
    };
    let two = cfg.kind.is_2d();
    let ax = cfg.axis_x();
    let ay = if two { cfg.axis_y() } else { vec![0.0, 1.0] };
    let seg_keys = |r: &mut Rng, a: &[f64]| -> Vec<f64> {
        let mut segs: Vec<usize> = (0..a.len() - 1).collect();
        r.shuffle(&mut segs);
        let cap = if a.len() >= 64 { r.range(24, 64) } else { r.range(8, 24) };
        segs.truncate(cap.min(segs.len()));
        segs.iter().map(|&j| a[j] + (a[j + 1] - a[j]) * *r.pick(&[0.5, 0.25, 0.75])).collect()
    };
    let kx = seg_keys(r, &ax);
    let ky = seg_keys(r, &ay);
    let mut pool: Vec<Op> = vec![];
    for _ in 0..if kx.len() > 24 { r.range(20, 48) } else { r.range(8, 16) } {
        let x = Fb(*r.pick(&kx));
        let y = if two { Fb(*r.pick(&ky)) } else { Fb(0.0) };
        let call = match r.weighted(&[4, 3, 3, 1]) {
            0 if cfg.shape.len() == if two { 2 } else { 1 } => Call::Scalar { x, y },
            0 | 1 => Call::Interp { x, y },
            2 if two && r.chance(1, 2) => Call::Array { q: mesh_query(r, &kx, &ky, 4) },
            2 => {
                let n = r.range(2, 5);
                let (ty, shape) = match r.weighted(&[6, 2, 2]) {
                    0 => (QTy::Q1, vec![n]),
                    1 => (QTy::QDyn, vec![n]),
                    _ => (QTy::Q2, vec![2, (n + 1) / 2]),
                };
                let n = shape.iter().product::<usize>();
                Call::Array { q: QSpec { ty, shape, xs: (0..n).map(|_| Fb(*r.pick(&kx))).collect(), ys: if two { (0..n).map(|_| Fb(*r.pick(&ky))).collect() } else { vec![] }, ys_shape: None, lay: Lay::C, ys_lay: Lay::C } }
            }
            _ => Call::IndexLeftOf { x, y },
        };
        pool.push(Op { slot: 0, call, plan: vec![], yield_mask: 0, check_acc: false, elem_fault: 0 });
    }
    let n_threads = r.range(2, 4);
    let threads = (0..n_threads).map(|_| ThreadSpec { ops: (0..r.range(10, 18)).map(|_| pool[r.below(pool.len())].clone()).collect(), crash_on_fault: false }).collect();
    Generated { spec: RunSpec { build_on_thread: vec![], slots: vec![cfg], threads, sched: Sched::RoundRobin { quantum: 1 }, stall: None, ballast: 0 }, faults }
}

/// Exception-safety sweep (C17): one interpolator over the yielding element type, one client, and
/// for EVERY n up to a bound the history  A, B with "the n-th element operation panics", A, C -
/// fault-point enumeration over the element operations of one call, the analogue of C18's
/// enumeration over callback indices. A and C are plain calls in other segments than B.
pub fn gen_elem_sweep(seed: u64) -> Generated {
    let mut r = Rng::new(seed);
    let r = &mut r;
    let faults = Faults { oob: false, badbuf: false, strat_err: false, strat_panic: false, crash: false, stall: false, cow: false, badidx: false, mismatch: false, sibling: false, reenter: false, elem_panic: true };
    let cfg = loop {
        let c = gen_slot(r, Mode::C17);
        let lanes: usize = c.trailing().iter().product();
        if c.elem == Elem::Yf && lanes >= 1 && (lanes >= 2 || r.chance(1, 3)) {
            break c;
        }
    };
    let two = cfg.kind.is_2d();
    let ax = cfg.axis_x();
    let ay = if two { cfg.axis_y() } else { vec![0.0, 1.0] };
    let inside = |r: &mut Rng, a: &[f64], j: usize| a[j] + (a[j + 1] - a[j]) * *r.pick(&[0.5, 0.25, 0.75]);
    // three segments (cyclically distinct where the axis allows)
    let nseg = ax.len() - 1;
    let s0 = r.below(nseg);
    let segs = [s0, (s0 + 1) % nseg, (s0 + 2) % nseg];
    let nsy = ay.len() - 1;
    let t0 = r.below(nsy);
    let plain = |r: &mut Rng, j: usize| -> Call {
        let x = Fb(inside(r, &ax, segs[j]));
        let y = if two { Fb(inside(r, &ay, (t0 + j) % nsy)) } else { Fb(0.0) };
        match r.weighted(&[3, 2, 2]) {
            0 => Call::Interp { x, y },
            1 => Call::Array { q: QSpec { ty: QTy::Q1, shape: vec![2], xs: vec![x, x], ys: if two { vec![y, y] } else { vec![] }, ys_shape: None, lay: Lay::C, ys_lay: Lay::C } },
            _ => Call::Array { q: QSpec { ty: QTy::QDyn, shape: vec![1, 1], xs: vec![x], ys: if two { vec![y] } else { vec![] }, ys_shape: None, lay: Lay::C, ys_lay: Lay::C } },
        }
    };
    let (a, b, c) = (plain(r, 0), plain(r, 1), plain(r, 2));
    let mk = |call: &Call, n: u32| Op { slot: 0, call: call.clone(), plan: vec![], yield_mask: 0, check_acc: false, elem_fault: n };
    let lanes: usize = cfg.trailing().iter().product();
    // enough to cover the index search, the range check and the evaluation of every lane
    let bound = (24 + 14 * lanes.max(1) * b.batch_len().max(1)).min(160) as u32;
    let mut ops = vec![mk(&a, 0)];
    for n in 1..=bound {
        ops.push(mk(&b, n));
        ops.push(mk(&a, 0));
        if n % 3 == 0 {
            ops.push(mk(&c, 0));
        }
    }
    Generated { spec: RunSpec { build_on_thread: vec![false], slots: vec![cfg], threads: vec![ThreadSpec { ops, crash_on_fault: false }], sched: Sched::Serial { order: vec![0] }, stall: None, ballast: 0 }, faults }
}

/// Thread-affinity scenario (C17): interpolators are Send - built on one thread, queried on it,
/// handed to another thread and dropped there, while that thread's own interpolators live on and
/// new ones are built. Every client builds PRIVATE interpolators of the run's slot configurations
/// (`PrivBuild`), queries them (`PrivQuery`: must answer like a fresh instance), sends them away
/// (`PrivSend`) and drops what others sent (`PrivReap`); the shared slots are queried as usual.
pub fn gen_migration(seed: u64) -> Generated {
    let mut r = Rng::new(seed);
    let r = &mut r;
    let mut faults = Faults::draw(r, Mode::C17);
    faults.reenter = false;
    faults.elem_panic = false;
    faults.strat_panic = false;
    faults.badbuf = false;
    faults.mismatch = false;
    let n_slots = r.range(2, 3);
    let mut slots: Vec<SlotCfg> = vec![];
    for _ in 0..n_slots {
        let s = if !slots.is_empty() && r.chance(1, 3) {
            let base = slots[r.below(slots.len())].clone();
            mutate_slot(r, base)
        } else {
            loop {
                let c = gen_slot(r, Mode::C17);
                // built-in strategies over plain f64 data: the scenario is about where instances live
                if !c.kind.is_probe() && c.elem == Elem::F64 {
                    break c;
                }
            }
        };
        slots.push(s);
    }
    let ctxs: Vec<SlotCtx> = slots.iter().map(|c| slot_ctx(r, c, &faults, Mode::C17)).collect();
    let n_threads = r.range(2, 4);
    let plain = |r: &mut Rng, slot: usize| -> Call {
        let sc = &ctxs[slot];
        let x = Fb(*r.pick(&sc.keys_x));
        let y = if sc.two { Fb(*r.pick(&sc.keys_y)) } else { Fb(0.0) };
        match r.weighted(&[3, 2, 1]) {
            0 => Call::Interp { x, y },
            1 => {
                let n = r.range(1, 3);
                Call::Array { q: QSpec { ty: QTy::Q1, shape: vec![n], xs: (0..n).map(|_| Fb(*r.pick(&sc.keys_x))).collect(), ys: if sc.two { (0..n).map(|_| Fb(*r.pick(&sc.keys_y))).collect() } else { vec![] }, ys_shape: None, lay: Lay::C, ys_lay: Lay::C } }
            }
            _ => Call::IndexLeftOf { x, y },
        }
    };
    let mk = |slot: usize, call: Call| Op { slot, call, plan: vec![], yield_mask: 0, check_acc: false, elem_fault: 0 };
    let threads: Vec<ThreadSpec> = (0..n_threads)
        .map(|_| {
            // `held`: the slot configurations of the private interpolators this client has at that
            // point of its own sequence (queries go to configurations it actually holds)
            let first = r.below(n_slots);
            let mut held = vec![first];
            let mut ops = vec![mk(first, Call::PrivBuild)];
            for _ in 0..r.range(8, 22) {
                let mut slot = r.below(n_slots);
                let call = match r.weighted(&[3, 9, 2, 3, 2]) {
                    0 => {
                        held.push(slot);
                        Call::PrivBuild
                    }
                    1 if !held.is_empty() => {
                        slot = *r.pick(&held);
                        Call::PrivQuery { inner: Box::new(plain(r, slot)) }
                    }
                    1 => {
                        held.push(slot);
                        Call::PrivBuild
                    }
                    2 => {
                        held.pop();
                        Call::PrivSend
                    }
                    3 => Call::PrivReap,
                    _ => plain(r, slot),
                };
                ops.push(mk(slot, call));
            }
            ThreadSpec { ops, crash_on_fault: false }
        })
        .collect();
    let horizon: usize = threads.iter().map(|t| t.ops.len() * 2 + 1).sum();
    let sched = gen_sched(r, n_threads, horizon);
    let build_on_thread = (0..n_slots).map(|_| r.chance(1, 2)).collect();
    Generated { spec: RunSpec { build_on_thread, slots, threads, sched, stall: None, ballast: 0 }, faults }
}

/// Volume scenario (C17): one interpolator with a built-in strategy, one client; the same small
/// call is repeated 254..257 or 65 534..65 537 times (counters and generation tags in narrow
/// integers wrap there, tables fill up, statistics cross thresholds), with plain calls in other
/// segments before and after. The reference of a repetition is the call made once, alone.
pub fn gen_volume(seed: u64) -> Generated {
    let mut r = Rng::new(seed);
    let r = &mut r;
    let faults = Faults { oob: false, badbuf: false, strat_err: false, strat_panic: false, crash: false, stall: false, cow: false, badidx: false, mismatch: false, sibling: false, reenter: false, elem_panic: false };
    let cfg = loop {
        let c = gen_slot(r, Mode::C17);
        let lanes: usize = c.trailing().iter().product();
        if !c.kind.is_probe() && c.elem != Elem::Yf && c.shape[0] >= 4 && lanes >= 1 && lanes <= 4 && c.shape[0] <= 40 {
            break c;
        }
    };
    let two = cfg.kind.is_2d();
    let ax = cfg.axis_x();
    let ay = if two { cfg.axis_y() } else { vec![0.0, 1.0] };
    let f32ok = cfg.elem == Elem::F32;
    let fix = |v: f64| if f32ok { v as f32 as f64 } else if cfg.elem == Elem::I64 { v.round() } else { v };
    let inside = |r: &mut Rng, a: &[f64], j: usize| fix(a[j] + (a[j + 1] - a[j]) * *r.pick(&[0.5, 0.25, 0.75]));
    let nseg = ax.len() - 1;
    let nsy = ay.len() - 1;
    // one small call per segment: a rank-1 batch of 4-6 elements, a single point, or a scalar
    let mut calls: Vec<Call> = vec![];
    for j in 0..nseg.min(6) {
        let jy = j % nsy;
        let n = r.range(4, 6);
        let xs: Vec<Fb> = (0..n).map(|_| Fb(inside(r, &ax, j))).collect();
        let ys: Vec<Fb> = if two { (0..n).map(|_| Fb(inside(r, &ay, jy))).collect() } else { vec![] };
        calls.push(match r.weighted(&[5, 2, 1]) {
            0 => Call::Array { q: QSpec { ty: *r.pick(&[QTy::Q1, QTy::Q1, QTy::QDyn]), shape: vec![n], xs, ys, ys_shape: None, lay: Lay::C, ys_lay: Lay::C } },
            1 => Call::Interp { x: xs[0], y: if two { ys[0] } else { Fb(0.0) } },
            _ => Call::IndexLeftOf { x: xs[0], y: if two { ys[0] } else { Fb(0.0) } },
        });
    }
    let mk = |call: Call| Op { slot: 0, call, plan: vec![], yield_mask: 0, check_acc: false, elem_fault: 0 };
    let small = [254u32, 255, 256, 257, 258, 511, 512, 513];
    let big = [65_534u32, 65_535, 65_536, 65_537];
    let mut ops = vec![];
    let nc = calls.len();
    // touch one segment, repeat another call a lot, then visit every segment again
    ops.push(mk(calls[0].clone()));
    ops.push(mk(Call::Repeat { inner: Box::new(calls[r.below(nc)].clone()), times: *r.pick(&big) }));
    for c in &calls {
        ops.push(mk(c.clone()));
    }
    for _ in 0..r.range(2, 5) {
        ops.push(mk(Call::Repeat { inner: Box::new(calls[r.below(nc)].clone()), times: *r.pick(&small) }));
        ops.push(mk(calls[r.below(nc)].clone()));
        ops.push(mk(calls[r.below(nc)].clone()));
    }
    Generated { spec: RunSpec { build_on_thread: vec![false], slots: vec![cfg], threads: vec![ThreadSpec { ops, crash_on_fault: false }], sched: Sched::Serial { order: vec![0] }, stall: None, ballast: 0 }, faults }
}

/// Huge-axis scenario (C17, once per block): an axis of 1024-1400 knots (code that only switches on
/// above a size threshold: tables, hints, block-wise loops), hot keys CLUSTERED around two places
/// of the axis - knots, the floats next to them, points inside the neighbouring intervals - and
/// short ascending / descending sweeps across them, from one or two clients.
pub fn gen_huge(seed: u64) -> Generated {
    let mut r = Rng::new(seed);
    let r = &mut r;
    let faults = Faults { oob: false, badbuf: false, strat_err: false, strat_panic: false, crash: false, stall: false, cow: false, badidx: false, mismatch: false, sibling: false, reenter: false, elem_panic: false };
    let kind = [Kind::Linear, Kind::Bilinear, Kind::Spline][r.weighted(&[3, 2, 2])];
    let two = kind.is_2d();
    let elem = if kind != Kind::Spline && r.chance(1, 3) { Elem::I64 } else { Elem::F64 };
    let int = elem == Elem::I64;
    let n = r.range(1024, 1400);
    let m = if two { r.range(3, 5) } else { 0 };
    let axis = |r: &mut Rng, len: usize| -> Vec<f64> {
        let mut v = vec![];
        let mut x = if int { r.below(11) as f64 - 5.0 } else { dyadic(r, 4) };
        for _ in 0..len {
            v.push(x);
            x += if int { r.range(2, 5) as f64 } else { 0.25 + r.below(12) as f64 * 0.25 };
        }
        v
    };
    let (ax, ay) = (axis(r, n), if two { axis(r, m) } else { vec![] });
    let lanes = if two || int { 1 } else { r.range(1, 2) };
    let (dimty, shape) = if two { (DimTy::Ix2, vec![n, m]) } else if lanes == 1 { (DimTy::Ix1, vec![n]) } else { (DimTy::Ix2, vec![n, lanes]) };
    let total: usize = shape.iter().product();
    let data: Vec<Fb> = (0..total).map(|_| Fb(if int { (r.below(201) as f64) - 100.0 } else { full_mantissa(r, 10.0) })).collect();
    let cfg = SlotCfg {
        kind,
        elem,
        storage: Storage::Owned,
        dimty,
        shape,
        x: Some(ax.iter().map(|v| Fb(*v)).collect()),
        y: if two { Some(ay.iter().map(|v| Fb(*v)).collect()) } else { None },
        data,
        extrapolate: r.chance(1, 2),
        bc: if kind == Kind::Spline { [Bc::NotAKnot, Bc::Natural, Bc::Clamped][r.below(3)].clone() } else { Bc::NotAKnot },
        probe_min: 0,
        build_plan: BuildPlan::Ok,
        data_lay: Lay::C,
        x_lay: Lay::C,
        build_order: 0,
    };
    // clustered keys
    let mut keys: Vec<f64> = vec![];
    for _ in 0..2 {
        let c = r.range(3, n - 4);
        for j in c - 2..=c + 2 {
            keys.push(ax[j]);
            if !int {
                keys.push(next_down(ax[j]));
                keys.push(next_up(ax[j]));
                keys.push(ax[j] + (ax[j + 1] - ax[j]) * *r.pick(&[0.5, 0.25, 0.75]));
            } else {
                keys.push(ax[j] + 1.0);
            }
        }
    }
    let ykeys: Vec<f64> = if two { let mut k = ay.clone(); if !int { k.push(ay[0] + (ay[1] - ay[0]) * 0.5); k.push(ay[1] + (ay[2] - ay[1]) * 0.25); } k } else { vec![0.0] };
    let scalar_ok = (two && cfg.shape.len() == 2) || (!two && cfg.shape.len() == 1);
    let mk = |call: Call| Op { slot: 0, call, plan: vec![], yield_mask: 0, check_acc: false, elem_fault: 0 };
    let n_threads = r.range(1, 2);
    let threads: Vec<ThreadSpec> = (0..n_threads)
        .map(|_| {
            let mut ops = vec![];
            for _ in 0..r.range(20, 40) {
                let x = Fb(*r.pick(&keys));
                let y = Fb(*r.pick(&ykeys));
                let call = match r.weighted(&[4, 3, 4]) {
                    0 if scalar_ok => Call::Scalar { x, y },
                    0 | 1 => Call::Interp { x, y },
                    _ => {
                        // a short sweep: consecutive keys in ascending or descending order
                        let len = r.range(2, 6).min(keys.len());
                        let start = r.below(keys.len() - len + 1);
                        let mut xs: Vec<f64> = keys[start..start + len].to_vec();
                        xs.sort_by(|a, b| a.partial_cmp(b).unwrap());
                        if r.chance(1, 2) {
                            xs.reverse();
                        }
                        let ys: Vec<Fb> = if two { (0..len).map(|_| Fb(*r.pick(&ykeys))).collect() } else { vec![] };
                        Call::Array { q: QSpec { ty: *r.pick(&[QTy::Q1, QTy::Q1, QTy::QDyn]), shape: vec![len], xs: xs.into_iter().map(Fb).collect(), ys, ys_shape: None, lay: Lay::C, ys_lay: Lay::C } }
                    }
                };
                ops.push(mk(call));
            }
            ThreadSpec { ops, crash_on_fault: false }
        })
        .collect();
    let horizon: usize = threads.iter().map(|t| t.ops.len() * 2 + 1).sum();
    let sched = gen_sched(r, n_threads, horizon);
    Generated { spec: RunSpec { build_on_thread: vec![false], slots: vec![cfg], threads, sched, stall: None, ballast: 0 }, faults }
}

/// one complete run specification from one seed
pub fn gen_run(seed: u64, mode: Mode) -> Generated {
    gen_run_inner(seed, mode)
}

fn gen_run_inner(seed: u64, mode: Mode) -> Generated {
    let mut r = Rng::new(seed);
    let faults = Faults::draw(&mut r, mode);
    let n_slots = match mode {
        Mode::C17Miri => r.weighted(&[0, 4, 1]),
        _ => r.weighted(&[0, 3, 2, 1]),
    };
    // later slots are often RELATIVES of an earlier one (same length and end points but other
    // interior knots, same axis but other data / boundary condition / storage ...): anything the
    // crate keys too weakly - by length, end points, address, a hash of the axis only - then collides
    let mut slots: Vec<SlotCfg> = vec![];
    for _ in 0..n_slots {
        let s = if !slots.is_empty() && mode != Mode::C17Miri && r.chance(1, 2) {
            let base = slots[r.below(slots.len())].clone();
            mutate_slot(&mut r, base)
        } else {
            gen_slot(&mut r, mode)
        };
        slots.push(s);
    }
    let ctxs: Vec<SlotCtx> = slots.iter().map(|c| slot_ctx(&mut r, c, &faults, mode)).collect();
    let n_threads = match mode {
        Mode::C17Miri => r.range(2, 4),
        Mode::C18 => [1, 2, 3, 4, 6, 8][r.weighted(&[3, 4, 3, 2, 1, 1])],
        Mode::C17 => [1, 2, 3, 4, 6, 8, 12, 16][r.weighted(&[2, 5, 4, 4, 2, 2, 1, 1])],
    };
    let max_ops = match mode {
        Mode::C17Miri => 10,
        _ => {
            if n_threads > 8 {
                5
            } else {
                12
            }
        }
    };
    // a pool of operations: threads draw from it, so the same call is issued by several
    // threads and several times (permuted histories over the same multiset of calls)
    let pool_n = r.range(2, 10);
    let yields_on = r.chance(3, 4);
    let mut pool: Vec<Op> = (0..pool_n)
        .map(|_| {
            let slot = r.below(n_slots);
            let sc = &ctxs[slot];
            let call = gen_fixed_call(&mut r, sc, &slots[slot], &faults, mode);
            let n_cb = call.batch_len();
            let mut plan = vec![];
            if sc.probe && mode != Mode::C18 && n_cb > 0 {
                if faults.strat_err && r.chance(1, 3) {
                    let k = r.below(n_cb);
                    plan = vec![Act::Ok; k];
                    plan.push(Act::Err(format!("tok-{:08x}", r.next_u64() as u32)));
                } else if faults.strat_panic && r.chance(1, 5) {
                    let k = r.below(n_cb);
                    plan = vec![Act::Ok; k];
                    plan.push(Act::Panic);
                } else if faults.reenter && r.chance(1, 3) {
                    // re-entrancy: callback k calls back into the interpolator (sometimes two do)
                    let k = r.below(n_cb);
                    plan = vec![Act::Ok; k];
                    plan.push(gen_nest(&mut r, sc, &slots[slot], &faults, mode));
                    if k + 1 < n_cb && r.chance(1, 4) {
                        plan.push(gen_nest(&mut r, sc, &slots[slot], &faults, mode));
                    }
                }
            }
            let elem_fault = if slots[slot].elem == Elem::Yf && faults.elem_panic && r.chance(1, 4) {
                // early faults land in the index search / range check, late ones in the evaluation
                if r.chance(1, 2) { r.range(1, 8) as u32 } else { r.range(1, 90) as u32 }
            } else {
                0
            };
            // buggify: a random subset of callback sites yields, only in some runs
            let yield_mask = if slots[slot].elem == Elem::Yf {
                // seed of the element-operation yield points of this call (0 = none)
                if r.chance(7, 8) { r.next_u64() | 1 } else { 0 }
            } else if sc.probe && yields_on { r.next_u64() & r.next_u64() | if r.chance(1, 2) { r.next_u64() } else { 0 } } else { 0 };
            let check_acc = sc.probe && r.chance(1, 2);
            Op { slot, call, plan, yield_mask, check_acc, elem_fault }
        })
        .collect();
    if mode == Mode::C18 {
        // C18 fault tokens are unique per pool entry so that a misrouted error is attributable
        for (i, op) in pool.iter_mut().enumerate() {
            op.check_acc = r.chance(2, 3);
            let _ = i;
        }
    }
    let threads: Vec<ThreadSpec> = (0..n_threads)
        .map(|_| {
            let n = r.range(if mode == Mode::C17Miri { 4 } else { 1 }, max_ops);
            let ops = (0..n).map(|_| pool[r.below(pool.len())].clone()).collect();
            ThreadSpec { ops, crash_on_fault: faults.crash && r.chance(1, 3) }
        })
        .collect();
    let horizon: usize = threads.iter().map(|t| t.ops.len() * 2 + 1).sum();
    let sched = gen_sched(&mut r, n_threads, horizon);
    let stall = if faults.stall && n_threads > 1 {
        Some(Stall { thread: r.below(n_threads), from_step: r.below(horizon.max(1)), len: r.range(3, horizon.max(4)) })
    } else {
        None
    };
    let _ = ctxs.iter().map(|c| c.f32ok).count();
    let build_on_thread = (0..n_slots).map(|_| mode != Mode::C17Miri && r.chance(1, 2)).collect();
    let ballast = if mode == Mode::C17 && r.chance(1, 16) { r.range(8, 40) } else { 0 };
    Generated { spec: RunSpec { build_on_thread, slots, threads, sched, stall, ballast }, faults }
}

//! dst — deterministic simulation harness for ndarray-interp (properties C17, C18).
//!
//! Everything lives in this library crate; the binary is a two-line shim. (Under `cargo miri run`
//! the *binary* crate is re-analysed by the interpreter on every execution, a library crate only
//! once: keeping the bulk here cuts the fixed start-up cost of every engine-B execution.)
#![allow(clippy::too_many_arguments)]

// Thread-locals of the harness: under engine C (shuttle) all simulated threads are continuations
// on one OS thread, so "per thread" must mean "per simulated thread".
#[cfg(feature = "engine_c")]
pub use shuttle::thread_local as tls;
#[cfg(not(feature = "engine_c"))]
pub use std::thread_local as tls;

pub mod block;
pub mod cli;
pub mod degen;
pub mod engine;
pub mod gen;
pub mod lpelem;
pub mod minimize;
pub mod miri_mode;
pub mod rng;
pub mod sched;
#[cfg(feature = "engine_c")]
pub mod shuttle_mode;
pub mod slots;
pub mod stub;
pub mod types;
pub mod watch;
pub mod yelem;

//! `Lp`: a low-precision numeric newtype (an f64 inside, but every conversion FROM another number
//! type keeps only 8 significant bits, like a bfloat16). The crate is generic over its element
//! type; for such a type `cast::<usize, T>(i)` is not injective, so the default axis 0..n of a data
//! set with more than 257 points is NOT strictly increasing - and a user strategy's `build` must
//! then not be invoked (C18; seeded change r14d skipped the scan "because the index axis counts up").

use std::cmp::Ordering;
use std::ops::{Add, Div, Mul, Neg, Rem, Sub, SubAssign};

use ndarray::ScalarOperand;
use num_traits::{Euclid, Num, NumCast, One, Pow, ToPrimitive, Zero};

/// keep 8 significant bits (round to nearest)
pub fn quantize(v: f64) -> f64 {
    if v == 0.0 || !v.is_finite() {
        return v;
    }
    let e = v.abs().log2().floor();
    let ulp = (2f64).powf(e - 7.0);
    (v / ulp).round() * ulp
}

#[derive(Clone, Copy, Default)]
pub struct Lp(pub f64);

impl std::fmt::Debug for Lp {
    fn fmt(&self, f: &mut std::fmt::Formatter<'_>) -> std::fmt::Result {
        std::fmt::Debug::fmt(&self.0, f)
    }
}

impl PartialEq for Lp {
    fn eq(&self, o: &Lp) -> bool {
        self.0 == o.0
    }
}
impl PartialOrd for Lp {
    fn partial_cmp(&self, o: &Lp) -> Option<Ordering> {
        self.0.partial_cmp(&o.0)
    }
    fn lt(&self, o: &Lp) -> bool {
        self.0 < o.0
    }
    fn le(&self, o: &Lp) -> bool {
        self.0 <= o.0
    }
    fn gt(&self, o: &Lp) -> bool {
        self.0 > o.0
    }
    fn ge(&self, o: &Lp) -> bool {
        self.0 >= o.0
    }
}

macro_rules! binop {
    ($tr:ident, $f:ident, $op:tt) => {
        impl $tr for Lp {
            type Output = Lp;
            fn $f(self, o: Lp) -> Lp {
                        Lp(self.0 $op o.0)
            }
        }
        impl<'a> $tr<&'a Lp> for Lp {
            type Output = Lp;
            fn $f(self, o: &'a Lp) -> Lp {
                        Lp(self.0 $op o.0)
            }
        }
        impl<'a> $tr<Lp> for &'a Lp {
            type Output = Lp;
            fn $f(self, o: Lp) -> Lp {
                        Lp(self.0 $op o.0)
            }
        }
        impl<'a, 'b> $tr<&'b Lp> for &'a Lp {
            type Output = Lp;
            fn $f(self, o: &'b Lp) -> Lp {
                        Lp(self.0 $op o.0)
            }
        }
    };
}
binop!(Add, add, +);
binop!(Sub, sub, -);
binop!(Mul, mul, *);
binop!(Div, div, /);
binop!(Rem, rem, %);

impl Neg for Lp {
    type Output = Lp;
    fn neg(self) -> Lp {
        Lp(-self.0)
    }
}
impl SubAssign for Lp {
    fn sub_assign(&mut self, o: Lp) {
        self.0 -= o.0;
    }
}
impl Zero for Lp {
    fn zero() -> Lp {
        Lp(0.0)
    }
    fn is_zero(&self) -> bool {
        self.0 == 0.0
    }
}
impl One for Lp {
    fn one() -> Lp {
        Lp(1.0)
    }
}
impl Num for Lp {
    type FromStrRadixErr = <f64 as Num>::FromStrRadixErr;
    fn from_str_radix(s: &str, r: u32) -> Result<Lp, Self::FromStrRadixErr> {
        f64::from_str_radix(s, r).map(Lp)
    }
}
impl ToPrimitive for Lp {
    fn to_i64(&self) -> Option<i64> {
        self.0.to_i64()
    }
    fn to_u64(&self) -> Option<u64> {
        self.0.to_u64()
    }
    fn to_isize(&self) -> Option<isize> {
        self.0.to_isize()
    }
    fn to_usize(&self) -> Option<usize> {
        self.0.to_usize()
    }
    fn to_f32(&self) -> Option<f32> {
        self.0.to_f32()
    }
    fn to_f64(&self) -> Option<f64> {
        self.0.to_f64()
    }
}
impl NumCast for Lp {
    fn from<T: ToPrimitive>(n: T) -> Option<Lp> {
        n.to_f64().map(|v| Lp(quantize(v)))
    }
}
impl Pow<Lp> for Lp {
    type Output = Lp;
    fn pow(self, e: Lp) -> Lp {
        Lp(self.0.powf(e.0))
    }
}
impl Euclid for Lp {
    fn div_euclid(&self, v: &Lp) -> Lp {
        Lp(self.0.div_euclid(v.0))
    }
    fn rem_euclid(&self, v: &Lp) -> Lp {
        Lp(self.0.rem_euclid(v.0))
    }
}
impl ScalarOperand for Lp {}

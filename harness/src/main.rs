fn main() {
    dst::cli::main()
}

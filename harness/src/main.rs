use ndarray::array;
use ndarray_interp::interp1d::Interp1D;
use serde::Serialize;
#[derive(Serialize)]
struct A { x: u32 }
fn main() {
    let i = Interp1D::builder(array![1.0, 2.0, 3.0]).build().unwrap();
    println!("{} {}", i.interp_scalar(0.5).unwrap(), serde_json::to_string(&A{x:1}).unwrap());
}

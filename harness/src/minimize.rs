//! Minimisation of a failing run before it is reported. Every candidate is executed in a fresh
//! child process (`dst replay`), so no state leaks between candidates, and is kept only if the
//! same violation class on the same property persists.

use std::process::Command;
use std::time::{Duration, Instant};

use crate::block::RunFile;
use crate::engine::Violation;
use crate::types::*;

struct Ctx {
    exe: std::path::PathBuf,
    tmp: String,
    tried: usize,
    started: Instant,
    budget_n: usize,
    budget_t: Duration,
    kind: String,
}

fn base_kind(k: &str) -> &str {
    k.split(" (").next().unwrap_or(k)
}

impl Ctx {
    fn exhausted(&self) -> bool {
        self.tried >= self.budget_n || self.started.elapsed() > self.budget_t
    }
    /// Some(violation) if the candidate still fails the same way
    fn fails(&mut self, rf: &RunFile) -> Option<Violation> {
        self.tried += 1;
        std::fs::write(&self.tmp, serde_json::to_string(rf).unwrap()).ok()?;
        let mut cmd = Command::new(&self.exe);
        cmd.arg("replay").arg(&self.tmp).arg("--quiet");
        if rf.flaky {
            cmd.env("DST_PATIENCE_MS", "400");
        }
        let out = cmd.output().ok()?;
        if out.status.code() != Some(1) {
            return None;
        }
        let text = String::from_utf8_lossy(&out.stdout);
        let line = text.lines().find(|l| l.starts_with("REPRODUCED "))?;
        let v: Violation = serde_json::from_str(&line["REPRODUCED ".len()..]).ok()?;
        if v.property == rf.property && base_kind(&v.kind) == base_kind(&self.kind) {
            Some(v)
        } else {
            None
        }
    }
}

fn remove_thread(spec: &RunSpec, k: usize) -> RunSpec {
    let mut s = spec.clone();
    s.threads.remove(k);
    if let Sched::Explicit { choices } = &mut s.sched {
        let mut c2 = vec![];
        for &c in choices.iter() {
            let c = c as usize;
            if c == k {
                continue;
            }
            c2.push(if c > k { c - 1 } else { c } as u16);
        }
        *choices = c2;
    }
    s
}

fn drop_unused_slots(spec: &RunSpec) -> RunSpec {
    let mut used = vec![false; spec.slots.len()];
    for t in &spec.threads {
        for o in &t.ops {
            used[o.slot] = true;
        }
    }
    if used.iter().all(|&u| u) {
        return spec.clone();
    }
    let mut map = vec![usize::MAX; spec.slots.len()];
    let mut s = spec.clone();
    s.slots.clear();
    s.build_on_thread.clear();
    for (i, c) in spec.slots.iter().enumerate() {
        if used[i] {
            map[i] = s.slots.len();
            s.slots.push(c.clone());
            s.build_on_thread.push(spec.build_on_thread.get(i).copied().unwrap_or(false));
        }
    }
    for t in s.threads.iter_mut() {
        for o in t.ops.iter_mut() {
            o.slot = map[o.slot];
        }
    }
    s
}

fn serial(spec: &RunSpec, order: Vec<usize>) -> RunSpec {
    let mut s = spec.clone();
    s.sched = Sched::Serial { order };
    s.stall = None;
    s
}

fn shrink_query(q: &QSpec) -> Vec<QSpec> {
    // fewer elements along the first non-trivial axis; rank-1 static query instead of anything else
    let mut out = vec![];
    if q.ys_shape.is_some() {
        return out;
    }
    let n = q.xs.len();
    if n > 1 {
        for keep in [n / 2, n - 1] {
            if keep >= 1 && q.shape.len() == 1 {
                let mut c = q.clone();
                c.shape = vec![keep];
                c.xs.truncate(keep);
                if !c.ys.is_empty() {
                    c.ys.truncate(keep);
                }
                out.push(c);
            }
        }
        for start in 0..n {
            if q.shape.len() == 1 {
                let mut c = q.clone();
                c.shape = vec![1];
                c.xs = vec![q.xs[start]];
                if !c.ys.is_empty() {
                    c.ys = vec![q.ys[start]];
                }
                out.push(c);
            }
        }
    }
    if q.lay != Lay::C || q.ys_lay != Lay::C {
        let mut c = q.clone();
        c.lay = Lay::C;
        c.ys_lay = Lay::C;
        out.push(c);
    }
    out
}

pub fn minimize_file(path: &str, out: &str) -> i32 {
    let text = match std::fs::read_to_string(path) {
        Ok(t) => t,
        Err(e) => {
            eprintln!("minimize: cannot read {path}: {e}");
            return 2;
        }
    };
    let mut rf: RunFile = match serde_json::from_str(&text) {
        Ok(r) => r,
        Err(e) => {
            eprintln!("minimize: cannot parse {path}: {e}");
            return 2;
        }
    };
    let exe = std::env::current_exe().expect("current_exe");
    let mut cx = Ctx {
        exe,
        tmp: format!("{out}.cand"),
        tried: 0,
        started: Instant::now(),
        budget_n: 500,
        budget_t: Duration::from_secs(60),
        kind: rf.kind.clone(),
    };
    // does it reproduce at all?
    let mut reproduced = false;
    for _ in 0..2 {
        if let Some(v) = cx.fails(&rf) {
            rf.violation = v;
            reproduced = true;
            break;
        }
    }
    if !reproduced {
        rf.flaky = true;
        let _ = std::fs::write(out, serde_json::to_string_pretty(&rf).unwrap());
        let _ = std::fs::remove_file(&cx.tmp);
        println!("MINIMIZE flaky: the unminimised run did not reproduce in a fresh process");
        return 0;
    }
    if rf.spec.is_some() {
        // (1) drop the block prefix
        if rf.prefix_runs > 0 {
            let mut c = rf.clone();
            c.prefix_runs = 0;
            if let Some(v) = cx.fails(&c) {
                rf = c;
                rf.violation = v;
            } else {
                // bisect the shortest sufficient prefix is not attempted: keep all of it
            }
        }
        macro_rules! try_spec {
            ($cand:expr) => {{
                let mut c = rf.clone();
                c.spec = Some($cand);
                if cx.exhausted() {
                    false
                } else if let Some(v) = cx.fails(&c) {
                    rf = c;
                    rf.violation = v;
                    true
                } else {
                    false
                }
            }};
        }
        let mut progress = true;
        while progress && !cx.exhausted() {
            progress = false;
            // (2) drop whole threads
            let mut k = rf.spec.as_ref().unwrap().threads.len();
            while k > 0 {
                k -= 1;
                if rf.spec.as_ref().unwrap().threads.len() <= 1 {
                    break;
                }
                let cand = remove_thread(rf.spec.as_ref().unwrap(), k);
                if try_spec!(cand) {
                    progress = true;
                }
            }
            // (3) drop operations, from the end
            let nt = rf.spec.as_ref().unwrap().threads.len();
            for t in 0..nt {
                let mut i = rf.spec.as_ref().unwrap().threads[t].ops.len();
                while i > 0 {
                    i -= 1;
                    let mut cand = rf.spec.as_ref().unwrap().clone();
                    if cand.n_ops() <= 1 {
                        break;
                    }
                    cand.threads[t].ops.remove(i);
                    if try_spec!(cand) {
                        progress = true;
                    }
                }
            }
            // threads that became empty
            let mut k = rf.spec.as_ref().unwrap().threads.len();
            while k > 0 {
                k -= 1;
                let sp = rf.spec.as_ref().unwrap();
                if sp.threads.len() > 1 && sp.threads[k].ops.is_empty() {
                    let cand = remove_thread(sp, k);
                    if try_spec!(cand) {
                        progress = true;
                    }
                }
            }
        }
        // (4) simplify what is left
        {
            let cand = drop_unused_slots(rf.spec.as_ref().unwrap());
            if cand != *rf.spec.as_ref().unwrap() {
                try_spec!(cand);
            }
            if rf.spec.as_ref().unwrap().ballast > 0 {
                let mut cand = rf.spec.as_ref().unwrap().clone();
                cand.ballast = 0;
                try_spec!(cand);
            }
            if rf.spec.as_ref().unwrap().build_on_thread.iter().any(|&b| b) {
                let mut cand = rf.spec.as_ref().unwrap().clone();
                cand.build_on_thread.iter_mut().for_each(|b| *b = false);
                try_spec!(cand);
            }
            let mut cand = rf.spec.as_ref().unwrap().clone();
            for t in cand.threads.iter_mut() {
                t.crash_on_fault = false;
                for o in t.ops.iter_mut() {
                    o.yield_mask = 0;
                    o.check_acc = false;
                }
            }
            if cand != *rf.spec.as_ref().unwrap() {
                try_spec!(cand);
            }
            let nt = rf.spec.as_ref().unwrap().threads.len();
            for t in 0..nt {
                for i in 0..rf.spec.as_ref().unwrap().threads[t].ops.len() {
                    // remove the fault annotation
                    if !rf.spec.as_ref().unwrap().threads[t].ops[i].plan.is_empty() {
                        let mut cand = rf.spec.as_ref().unwrap().clone();
                        cand.threads[t].ops[i].plan.clear();
                        try_spec!(cand);
                    }
                    // plain buffer
                    let mut cand = rf.spec.as_ref().unwrap().clone();
                    let mut changed = false;
                    if let Call::InterpInto { buf, .. } | Call::ArrayInto { buf, .. } = &mut cand.threads[t].ops[i].call {
                        if buf.lay != Lay::C {
                            buf.lay = Lay::C;
                            changed = true;
                        }
                    }
                    if changed {
                        try_spec!(cand);
                    }
                    // smaller batches
                    let qs = match &rf.spec.as_ref().unwrap().threads[t].ops[i].call {
                        Call::Array { q } => shrink_query(q),
                        _ => vec![],
                    };
                    for q in qs {
                        let mut cand = rf.spec.as_ref().unwrap().clone();
                        cand.threads[t].ops[i].call = Call::Array { q };
                        if try_spec!(cand) {
                            break;
                        }
                    }
                }
            }
        }
        // (5) shrink the schedule: serial orders first, then fewer context switches
        {
            let n = rf.spec.as_ref().unwrap().threads.len();
            let mut done = false;
            let fwd: Vec<usize> = (0..n).collect();
            let rev: Vec<usize> = (0..n).rev().collect();
            for order in [fwd, rev] {
                if !done {
                    let cand = serial(rf.spec.as_ref().unwrap(), order);
                    if try_spec!(cand) {
                        done = true;
                    }
                }
            }
            if !done {
                if let Sched::Explicit { choices } = rf.spec.as_ref().unwrap().sched.clone() {
                    // remove context switches one at a time: make decision k repeat decision k-1
                    let mut ch = choices;
                    let mut k = ch.len();
                    while k > 1 && !cx.exhausted() {
                        k -= 1;
                        if ch[k] != ch[k - 1] {
                            let mut c2 = ch.clone();
                            c2[k] = c2[k - 1];
                            let mut cand = rf.spec.as_ref().unwrap().clone();
                            cand.sched = Sched::Explicit { choices: c2.clone() };
                            if try_spec!(cand) {
                                ch = c2;
                            }
                        }
                    }
                }
            }
        }
    }
    // final: re-record the exact trace from a fresh process and verify once more
    let final_path = out.to_string();
    std::fs::write(&cx.tmp, serde_json::to_string(&rf).unwrap()).ok();
    let rec = Command::new(&cx.exe).arg("rerecord").arg(&cx.tmp).arg(&final_path).output();
    let ok = matches!(rec, Ok(ref o) if o.status.code() == Some(1));
    if !ok {
        let _ = std::fs::write(&final_path, serde_json::to_string_pretty(&rf).unwrap());
    }
    let verify = Command::new(&cx.exe).arg("replay").arg(&final_path).arg("--quiet").output();
    let verified = matches!(verify, Ok(ref o) if o.status.code() == Some(1));
    let _ = std::fs::remove_file(&cx.tmp);
    println!(
        "MINIMIZE candidates={} wall={:.1}s verified={} threads={} ops={}",
        cx.tried,
        cx.started.elapsed().as_secs_f64(),
        verified,
        rf.spec.as_ref().map(|s| s.threads.len()).unwrap_or(0),
        rf.spec.as_ref().map(|s| s.n_ops()).unwrap_or(0)
    );
    if verified {
        0
    } else {
        3
    }
}

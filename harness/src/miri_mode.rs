//! Engine B workload: the same seeded worlds and the same oracle, but the client threads are
//! plain `std::thread::scope` threads with no baton. Meant to be executed by
//! `cargo +nightly miri run`, whose deterministic interpreter (seeded by `-Zmiri-seed`) then is the
//! scheduler: it preempts at basic-block ends, models weak memory and reports data races.
//!
//! The operation path contains no harness synchronisation: results go to per-thread vectors
//! returned through `join`; completions are stamped with one relaxed counter, which orders events
//! without creating happens-before edges that would hide races from the race detector.

use std::sync::atomic::{AtomicUsize, Ordering};

use crate::engine::Violation;
use crate::gen::gen_miri;
use crate::rng::{derive, Fnv};
use crate::slots::{build_slot, exec, Slot};
use crate::types::*;

pub fn run(seed: u64, index: u64, dump_only: bool, c18: bool) -> i32 {
    let g = if c18 { crate::gen::gen_miri_c18(derive(derive(seed, 0x2718_2818), index), index) } else { gen_miri(derive(derive(seed, 0x3141_5926), index), index) };
    let spec = g.spec;
    if dump_only {
        println!("{}", serde_json::to_string(&spec).unwrap());
        return 0;
    }
    run_workload(&spec, derive(seed, index))
}

/// engine B on an explicit workload (minimisation candidates; passed on argv, never via env/files)
pub fn run_json(json: &str) -> i32 {
    match serde_json::from_str::<RunSpec>(json) {
        Ok(spec) => run_workload(&spec, 0),
        Err(e) => {
            eprintln!("miri-spec: cannot parse workload: {e}");
            2
        }
    }
}

fn run_workload(spec: &RunSpec, label: u64) -> i32 {
    println!("WORKLOAD {:016x} slots={} threads={} ops={}", label, spec.slots.len(), spec.threads.len(), spec.n_ops());
    for c in &spec.slots {
        println!("SLOT {}", c.label());
    }
    // ---- single-threaded phase: shared instances and the reference table ------------------
    let mut shared: Vec<Box<dyn Slot>> = vec![];
    for cfg in &spec.slots {
        match build_slot(cfg) {
            Ok(s) => shared.push(s),
            Err(e) => {
                println!("UNBUILDABLE {:?}", e);
                println!("RESULT skipped");
                return 0;
            }
        }
    }
    // Reference: every distinct operation once, single-threaded, on a second set of instances
    // that is never shared between threads. (History independence is engine A's question; here
    // the reference only has to be free of concurrency, and building a fresh instance per
    // operation would triple the interpreted work.)
    let mut refs: Vec<Box<dyn Slot>> = vec![];
    for cfg in &spec.slots {
        match build_slot(cfg) {
            Ok(s) => refs.push(s),
            Err(_) => {
                println!("RESULT skipped");
                return 0;
            }
        }
    }
    let mut distinct: Vec<(Op, Outcome)> = vec![];
    let mut table: Vec<Vec<Outcome>> = vec![];
    for t in &spec.threads {
        let mut row = vec![];
        for op in &t.ops {
            let known = distinct.iter().find(|(o, _)| o == op).map(|(_, r)| r.clone());
            let out = match known {
                Some(r) => r,
                None => {
                    let r = exec(&*refs[op.slot], op);
                    distinct.push((op.clone(), r.clone()));
                    r
                }
            };
            row.push(out);
        }
        table.push(row);
    }
    drop(refs);
    println!("PHASE reference-done");
    // ---- concurrent phase: free-running threads under the interpreter's scheduler ----------
    let stamp = AtomicUsize::new(0);
    let results: Vec<Vec<(usize, Outcome)>> = std::thread::scope(|s| {
        let hs: Vec<_> = spec
            .threads
            .iter()
            .map(|th| {
                let (shared, stamp) = (&shared, &stamp);
                s.spawn(move || {
                    let mut v = Vec::with_capacity(th.ops.len());
                    for op in &th.ops {
                        let out = exec(&*shared[op.slot], op);
                        let at = stamp.fetch_add(1, Ordering::Relaxed);
                        v.push((at, out));
                    }
                    v
                })
            })
            .collect();
        hs.into_iter().map(|h| h.join().expect("client thread panicked outside catch_unwind")).collect()
    });
    println!("PHASE concurrent-done");
    let mut viol: Option<Violation> = None;
    let mut order = Fnv::new();
    let mut compared = 0;
    let mut flat: Vec<(usize, usize, usize)> = vec![];
    for (t, row) in results.iter().enumerate() {
        for (i, (at, out)) in row.iter().enumerate() {
            flat.push((*at, t, i));
            compared += 1;
            // probe-strategy slots: the C18 checks over the recorded outcome (error identity,
            // delivery of every query element, target correspondence)
            if viol.is_none() && spec.slots[spec.threads[t].ops[i].slot].kind.is_probe() {
                let mut v18 = vec![];
                crate::engine::check_c18(&spec.threads[t].ops[i], &spec.slots[spec.threads[t].ops[i].slot], out, t, i, *at, &mut v18);
                viol = v18.into_iter().next();
            }
            if viol.is_none() && !out.same_answer(&table[t][i]) {
                let op = &spec.threads[t].ops[i];
                let probe = spec.slots[op.slot].kind.is_probe();
                viol = Some(Violation {
                    property: if probe { "C18".into() } else { "C17".into() },
                    kind: if probe { "concurrent-operation-affected".into() } else { "result-mismatch".into() },
                    detail: format!("slot={} [{}] call={} want: {} got: {}", op.slot, spec.slots[op.slot].label(), op.call.name(), table[t][i].brief(), out.brief()),
                    thread: t,
                    op: i,
                    step: *at,
                });
            }
        }
    }
    flat.sort();
    for (_, t, _) in &flat {
        order.byte(*t as u8);
    }
    // ---- epilogue: after the storm the shared instances answer as pristine ones ------------
    if viol.is_none() {
        'e: for (t, th) in spec.threads.iter().enumerate() {
            for (i, op) in th.ops.iter().enumerate().take(2) {
                let out = exec(&*shared[op.slot], op);
                compared += 1;
                if !out.same_answer(&table[t][i]) {
                    viol = Some(Violation {
                        property: "C17".into(),
                        kind: "result-mismatch".into(),
                        detail: format!("epilogue: slot={} call={} want: {} got: {}", op.slot, op.call.name(), table[t][i].brief(), out.brief()),
                        thread: usize::MAX,
                        op: i,
                        step: flat.len(),
                    });
                    break 'e;
                }
            }
        }
    }
    println!("ORDER {:016x} compared={}", order.0, compared);
    match viol {
        Some(v) => {
            println!("MISMATCH {}", serde_json::to_string(&v).unwrap());
            println!("RESULT violation");
            1
        }
        None => {
            println!("RESULT ok");
            0
        }
    }
}

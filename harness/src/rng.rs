//! Hand-written PRNG: splitmix64 for seed derivation, xoshiro256** for every choice of a run.
//! No dependency on an external crate's stream, so (seed -> run) never changes under us.

pub fn splitmix64(state: &mut u64) -> u64 {
    *state = state.wrapping_add(0x9E37_79B9_7F4A_7C15);
    let mut z = *state;
    z = (z ^ (z >> 30)).wrapping_mul(0xBF58_476D_1CE4_E5B9);
    z = (z ^ (z >> 27)).wrapping_mul(0x94D0_49BB_1331_11EB);
    z ^ (z >> 31)
}

/// derive a child seed from a parent seed and a stream label
pub fn derive(seed: u64, label: u64) -> u64 {
    let mut s = seed ^ label.wrapping_mul(0xD6E8_FEB8_6659_FD93);
    let a = splitmix64(&mut s);
    let b = splitmix64(&mut s);
    a ^ b.rotate_left(17)
}

#[derive(Clone, Debug)]
pub struct Rng {
    s: [u64; 4],
}

impl Rng {
    pub fn new(seed: u64) -> Rng {
        let mut st = seed;
        let mut s = [0u64; 4];
        for v in s.iter_mut() {
            *v = splitmix64(&mut st);
        }
        if s == [0; 4] {
            s[0] = 1;
        }
        Rng { s }
    }

    pub fn next_u64(&mut self) -> u64 {
        let result = self.s[1].wrapping_mul(5).rotate_left(7).wrapping_mul(9);
        let t = self.s[1] << 17;
        self.s[2] ^= self.s[0];
        self.s[3] ^= self.s[1];
        self.s[1] ^= self.s[2];
        self.s[0] ^= self.s[3];
        self.s[2] ^= t;
        self.s[3] = self.s[3].rotate_left(45);
        result
    }

    /// uniform in 0..n (n > 0)
    pub fn below(&mut self, n: usize) -> usize {
        debug_assert!(n > 0);
        // multiply-shift; bias is irrelevant for our n (< 2^32)
        (((self.next_u64() >> 32) * (n as u64)) >> 32) as usize
    }

    /// uniform in lo..=hi
    pub fn range(&mut self, lo: usize, hi: usize) -> usize {
        lo + self.below(hi - lo + 1)
    }

    /// true with probability num/den
    pub fn chance(&mut self, num: usize, den: usize) -> bool {
        self.below(den) < num
    }

    pub fn pick<'a, T>(&mut self, xs: &'a [T]) -> &'a T {
        &xs[self.below(xs.len())]
    }

    /// pick an index according to integer weights
    pub fn weighted(&mut self, w: &[usize]) -> usize {
        let total: usize = w.iter().sum();
        let mut r = self.below(total);
        for (i, &wi) in w.iter().enumerate() {
            if r < wi {
                return i;
            }
            r -= wi;
        }
        w.len() - 1
    }

    /// uniform in [0,1)
    pub fn unit(&mut self) -> f64 {
        (self.next_u64() >> 11) as f64 / (1u64 << 53) as f64
    }

    pub fn shuffle<T>(&mut self, xs: &mut [T]) {
        for i in (1..xs.len()).rev() {
            let j = self.below(i + 1);
            xs.swap(i, j);
        }
    }
}

/// FNV-1a 64 — used for digests of specs, traces and outcomes (never for randomness)
#[derive(Clone, Copy)]
pub struct Fnv(pub u64);

impl Fnv {
    pub fn new() -> Fnv {
        Fnv(0xcbf2_9ce4_8422_2325)
    }
    pub fn byte(&mut self, b: u8) {
        self.0 ^= b as u64;
        self.0 = self.0.wrapping_mul(0x0000_0100_0000_01B3);
    }
    pub fn bytes(&mut self, bs: &[u8]) {
        for &b in bs {
            self.byte(b);
        }
    }
    pub fn u64(&mut self, v: u64) {
        self.bytes(&v.to_le_bytes());
    }
    pub fn str(&mut self, s: &str) {
        self.u64(s.len() as u64);
        self.bytes(s.as_bytes());
    }
}

//! Engine A: the baton scheduler.
//!
//! Logical client threads are real OS threads, but exactly one of them runs at any time: the one
//! holding the baton. At every yield point the running thread — under the scheduler mutex, all
//! others parked — asks the policy who runs next, appends the decision to the trace, hands the
//! baton over and parks. Who runs is therefore never the operating system's choice, and the
//! trace (a list of thread indices) replays the interleaving exactly.

use std::cell::Cell;
use std::sync::{Condvar, Mutex, MutexGuard};
use std::time::Duration;

use crate::rng::Rng;
use crate::types::{Sched, Stall};

pub const SITE_OP: u8 = 0;
pub const SITE_CALLBACK: u8 = 1;
pub const SITE_END: u8 = 2;
pub const SITE_ELEM: u8 = 3;

/// how long a run may take after the watchdog released it before it is declared hung
pub const HANG_LIMIT: Duration = Duration::from_secs(8);

pub struct Baton {
    m: Mutex<St>,
    cvs: Vec<Condvar>,
    cv_main: Condvar,
}

struct St {
    current: usize,
    alive: Vec<bool>,
    n_alive: usize,
    step: usize,
    trace: Vec<u16>,
    sites: Vec<u8>,
    policy: Policy,
    stall: Option<Stall>,
    /// the watchdog gave up: everybody runs freely, decisions are no longer recorded
    free_run: bool,
    /// an explicit schedule named a thread that was not runnable
    deviated: bool,
    /// a violation was found: threads stop at their next operation boundary
    stop: bool,
    switches: usize,
    callback_switches: usize,
    /// decisions at which the stalled thread was actually withheld from the policy
    stall_hits: usize,
    elem_switches: usize,
}

enum Policy {
    Uniform(Rng),
    Sticky(Rng, usize),
    Pct { prio: Vec<u32>, change: Vec<usize>, low: u32 },
    RoundRobin { quantum: usize, used: usize },
    Serial(Vec<usize>),
    Explicit(Vec<u16>),
}

impl Policy {
    fn new(s: &Sched, n: usize) -> Policy {
        match s {
            Sched::Uniform { seed } => Policy::Uniform(Rng::new(*seed)),
            Sched::Sticky { seed, stay } => Policy::Sticky(Rng::new(*seed), *stay),
            Sched::Pct { seed, depth, horizon } => {
                let mut r = Rng::new(*seed);
                let mut prio: Vec<u32> = (0..n as u32).map(|i| i + 1000).collect();
                r.shuffle(&mut prio);
                let mut change: Vec<usize> = (0..*depth).map(|_| r.below((*horizon).max(1))).collect();
                change.sort();
                Policy::Pct { prio, change, low: 999 }
            }
            Sched::RoundRobin { quantum } => Policy::RoundRobin { quantum: (*quantum).max(1), used: 0 },
            Sched::Serial { order } => Policy::Serial(order.clone()),
            Sched::Explicit { choices } => Policy::Explicit(choices.clone()),
        }
    }
}

crate::tls! {
    static ME: Cell<Option<(*const Baton, usize)>> = const { Cell::new(None) };
}

pub struct Summary {
    pub trace: Vec<u16>,
    pub sites: Vec<u8>,
    pub lost_control: bool,
    pub deviated: bool,
    pub switches: usize,
    pub callback_switches: usize,
    pub stall_hits: usize,
    pub elem_switches: usize,
}

impl Baton {
    pub fn new(n: usize, sched: &Sched, stall: Option<Stall>) -> Baton {
        let mut st = St {
            current: usize::MAX,
            alive: vec![true; n],
            n_alive: n,
            step: 0,
            trace: Vec::new(),
            sites: Vec::new(),
            policy: Policy::new(sched, n),
            stall,
            free_run: false,
            deviated: false,
            stop: false,
            switches: 0,
            callback_switches: 0,
            stall_hits: 0,
            elem_switches: 0,
        };
        // the very first decision (who starts) is part of the trace
        if n > 0 {
            let first = choose(&mut st, usize::MAX);
            st.current = first;
            st.trace.push(first as u16);
            st.sites.push(SITE_OP);
            st.step = 1;
        }
        Baton { m: Mutex::new(st), cvs: (0..n).map(|_| Condvar::new()).collect(), cv_main: Condvar::new() }
    }

    fn lock(&self) -> MutexGuard<'_, St> {
        self.m.lock().unwrap_or_else(|p| p.into_inner())
    }

    /// called by a client thread first thing: register and wait for the baton
    pub fn enter(&self, me: usize) {
        ME.with(|c| c.set(Some((self as *const Baton, me))));
        let mut st = self.lock();
        while st.current != me && !st.free_run {
            st = self.cvs[me].wait(st).unwrap_or_else(|p| p.into_inner());
        }
    }

    /// called by a client thread when it has nothing more to do
    pub fn leave(&self, me: usize) {
        ME.with(|c| c.set(None));
        let mut st = self.lock();
        st.alive[me] = false;
        st.n_alive -= 1;
        if st.n_alive == 0 {
            self.cv_main.notify_all();
            return;
        }
        if st.free_run {
            return;
        }
        let next = choose(&mut st, me);
        st.trace.push(next as u16);
        st.sites.push(SITE_END);
        st.step += 1;
        st.switches += 1;
        st.current = next;
        self.cvs[next].notify_one();
    }

    pub fn stop_requested(&self) -> bool {
        self.lock().stop
    }
    pub fn request_stop(&self) {
        self.lock().stop = true;
    }
    pub fn step(&self) -> usize {
        self.lock().step
    }

    /// yield point; returns true if another thread ran in between
    fn yield_here(&self, me: usize, site: u8) -> bool {
        let mut st = self.lock();
        if st.free_run {
            return false;
        }
        let next = choose(&mut st, me);
        st.trace.push(next as u16);
        st.sites.push(site);
        st.step += 1;
        if next == me {
            return false;
        }
        st.switches += 1;
        if site == SITE_CALLBACK {
            st.callback_switches += 1;
        }
        if site == SITE_ELEM {
            st.elem_switches += 1;
        }
        st.current = next;
        self.cvs[next].notify_one();
        while st.current != me && !st.free_run {
            st = self.cvs[me].wait(st).unwrap_or_else(|p| p.into_inner());
        }
        true
    }

    /// main thread: wait until all clients are done; release everybody if nothing moves for
    /// `patience` (a change that blocks the running thread on a lock the simulator does not see).
    /// Returns false if the clients still have not finished `HANG_LIMIT` after having been
    /// released: a thread is blocked for good (e.g. it deadlocked with itself on a lock it already
    /// holds when a strategy callback re-entered the interpolator).
    pub fn supervise(&self, patience: Duration) -> bool {
        let mut st = self.lock();
        let mut last = st.step;
        let mut released_at: Option<std::time::Instant> = None;
        while st.n_alive > 0 {
            let (g, to) = self.cv_main.wait_timeout(st, patience).unwrap_or_else(|p| p.into_inner());
            st = g;
            if st.n_alive == 0 {
                break;
            }
            if to.timed_out() {
                if st.step == last && !st.free_run {
                    st.free_run = true;
                    released_at = Some(std::time::Instant::now());
                    for cv in &self.cvs {
                        cv.notify_all();
                    }
                }
                last = st.step;
            }
            if let Some(t) = released_at {
                if t.elapsed() > HANG_LIMIT {
                    return false;
                }
            }
        }
        true
    }

    pub fn summary(&self) -> Summary {
        let st = self.lock();
        Summary {
            trace: st.trace.clone(),
            sites: st.sites.clone(),
            lost_control: st.free_run,
            deviated: st.deviated,
            switches: st.switches,
            callback_switches: st.callback_switches,
            stall_hits: st.stall_hits,
            elem_switches: st.elem_switches,
        }
    }
}

/// yield point usable from anywhere on a client thread (no-op elsewhere, e.g. on the main thread
/// while it tabulates the reference). Returns true if another thread ran in between.
pub fn yield_now(site: u8) -> bool {
    match ME.with(|c| c.get()) {
        // Safety: the Baton outlives every client thread (threads are scoped inside its lifetime
        // and ME is cleared in `leave`).
        Some((b, me)) => {
            let switched = unsafe { (*b).yield_here(me, site) };
            if switched {
                // we have the baton back: callbacks on library worker threads belong to us again
                crate::stub::republish();
            }
            switched
        }
        #[cfg(feature = "engine_c")]
        None => {
            // engine C: the harness's yield points (stub callbacks, element operations of `Yf`) are
            // scheduling points of shuttle's scheduler
            let _ = site;
            shuttle::thread::sleep(std::time::Duration::ZERO);
            false
        }
        #[cfg(not(feature = "engine_c"))]
        None => false,
    }
}

/// true on a logical client thread of a run in progress (somebody supervises it)
pub fn on_client_thread() -> bool {
    ME.with(|c| c.get()).is_some()
}

fn choose(st: &mut St, me: usize) -> usize {
    // runnable = alive, minus a stalled thread (unless it is the only one)
    let mut runnable: Vec<usize> = (0..st.alive.len()).filter(|&i| st.alive[i]).collect();
    if let Some(s) = &st.stall {
        if st.step >= s.from_step && st.step < s.from_step + s.len && runnable.len() > 1 && runnable.contains(&s.thread) && !matches!(st.policy, Policy::Explicit(_)) {
            runnable.retain(|&i| i != s.thread);
            st.stall_hits += 1;
        }
    }
    debug_assert!(!runnable.is_empty());
    let me_ok = runnable.contains(&me);
    let step = st.step;
    match &mut st.policy {
        Policy::Uniform(r) => runnable[r.below(runnable.len())],
        Policy::Sticky(r, stay) => {
            if me_ok && r.chance(*stay, 16) {
                me
            } else {
                runnable[r.below(runnable.len())]
            }
        }
        Policy::Pct { prio, change, low } => {
            while let Some(&c) = change.first() {
                if c <= step {
                    change.remove(0);
                    if me < prio.len() {
                        prio[me] = *low;
                        *low = low.saturating_sub(1);
                    }
                } else {
                    break;
                }
            }
            *runnable.iter().max_by_key(|&&i| prio[i]).unwrap()
        }
        Policy::RoundRobin { quantum, used } => {
            if me_ok && *used + 1 < *quantum {
                *used += 1;
                me
            } else {
                *used = 0;
                // next alive after me, cyclically
                let n = st.alive.len();
                let start = if me == usize::MAX { 0 } else { me + 1 };
                (0..n).map(|k| (start + k) % n).find(|i| runnable.contains(i)).unwrap()
            }
        }
        Policy::Serial(order) => {
            if me_ok {
                me
            } else {
                order.iter().copied().find(|i| runnable.contains(i)).unwrap_or(runnable[0])
            }
        }
        Policy::Explicit(ch) => match ch.get(step).map(|&c| c as usize) {
            Some(c) if st.alive.get(c).copied().unwrap_or(false) => c,
            _ => {
                st.deviated = true;
                // deterministic fallback: stay if possible, else the lowest-numbered alive thread
                let all: Vec<usize> = (0..st.alive.len()).filter(|&i| st.alive[i]).collect();
                if all.contains(&me) {
                    me
                } else {
                    all[0]
                }
            }
        },
    }
}

//! Engine C: the same seeded workloads and oracles, free-running on shuttle's simulated threads.
//!
//! The crate under test is built with `--cfg ndarray_interp_verif` against the `verif_std` facade
//! (the hook in `/repo/src/lib.rs`), so every atomic, lock, `Once*`/`Lazy*` and thread-local it uses
//! is shuttle's: a scheduling point of a seeded scheduler, at native speed. Windows that contain
//! no element operation and no callback - out of reach for engine A and only thinly sampled by
//! engine B (Miri, a few executions per second) - are explored here with thousands of schedules
//! per second. What shuttle does not give: weak-memory effects and data-race detection (engine B).
//!
//! Everything that touches the instrumented crate must run inside a shuttle execution, so one
//! iteration = build the shared and the reference instances, tabulate the reference on the main
//! simulated thread, run the client threads, compare, epilogue. One process = one workload
//! (`--index`) x `--iters` schedules drawn from `--seed`; the process is deterministic, so the
//! command line is a replay; the failing iteration's schedule is also persisted by shuttle.

use std::cell::Cell;
use std::sync::atomic::{AtomicU64, Ordering};
use std::sync::Mutex as StdMutex;

use crate::engine::Violation;
use crate::rng::{derive, Fnv};
use crate::slots::{build_slot, exec, Slot};
use crate::types::*;

// real std thread-local on purpose: all simulated threads share the one OS thread, and the panic
// hook runs on it
std::thread_local! {
    static EXPECTED: Cell<u32> = const { Cell::new(0) };
}

/// scope in which panics are expected (they are about to be caught by the harness)
pub struct ExpectPanics;
impl ExpectPanics {
    pub fn enter() -> ExpectPanics {
        EXPECTED.with(|e| e.set(e.get() + 1));
        ExpectPanics
    }
}
impl Drop for ExpectPanics {
    fn drop(&mut self) {
        EXPECTED.with(|e| e.set(e.get().saturating_sub(1)));
    }
}

static VIOLATION: StdMutex<Option<Violation>> = StdMutex::new(None);
static ITER: AtomicU64 = AtomicU64::new(0);
static COMPARED: AtomicU64 = AtomicU64::new(0);
static ORDERS: StdMutex<Vec<u64>> = StdMutex::new(Vec::new());

fn fail(v: Violation) -> ! {
    *VIOLATION.lock().unwrap_or_else(|p| p.into_inner()) = Some(v);
    // this panic is the verdict, not an expected one: let shuttle's hook persist the schedule
    EXPECTED.with(|e| e.set(0));
    panic!("dst-violation");
}

/// one iteration: see the module documentation
fn run_once(spec: &RunSpec, c18: bool) {
    ITER.fetch_add(1, Ordering::Relaxed);
    let mut shared: Vec<Box<dyn Slot>> = vec![];
    for cfg in &spec.slots {
        match build_slot(cfg) {
            Ok(a) => shared.push(a),
            _ => return, // unbuildable configuration: nothing to explore
        }
    }
    // reference: every distinct operation once, alone, on an instance of its own (an operation that
    // panics may leave an instrumented lock of ITS instance behind: shuttle's primitives do not
    // release cleanly while a task is unwinding, because for shuttle a panic ends the test)
    let mut distinct: Vec<(Op, Outcome)> = vec![];
    let mut table: Vec<Vec<Outcome>> = vec![];
    for t in &spec.threads {
        let mut row = vec![];
        for op in &t.ops {
            let known = distinct.iter().find(|(o, _)| o == op).map(|(_, r)| r.clone());
            let out = match known {
                Some(r) => r,
                None => {
                    let Ok(fresh) = build_slot(&spec.slots[op.slot]) else { return };
                    let r = exec(&*fresh, op);
                    distinct.push((op.clone(), r.clone()));
                    r
                }
            };
            row.push(out);
        }
        table.push(row);
    }
    // Operations that panic (documented panics on bad buffers, planned stub panics, element faults)
    // take no part in the concurrent phase: a caught panic under shuttle can leave a lock of the
    // SHARED instance behind, and the other clients would then "deadlock" - an artefact of the
    // scheduler, not of the crate. Panicking histories are engine A's (real locks, real unwinding).
    let panics = |t: usize, i: usize| table[t][i].class == Class::Panic;
    // ---- concurrent phase -----------------------------------------------------------------
    let stamp = std::sync::atomic::AtomicUsize::new(0);
    let results: Vec<Vec<(usize, Outcome)>> = shuttle::thread::scope(|s| {
        let hs: Vec<_> = spec
            .threads
            .iter()
            .enumerate()
            .map(|(tix, th)| {
                let (shared, stamp, table) = (&shared, &stamp, &table);
                s.spawn(move || {
                    let mut v = Vec::with_capacity(th.ops.len());
                    for (i, op) in th.ops.iter().enumerate() {
                        if table[tix][i].class == Class::Panic {
                            // placeholder: compared with itself below
                            v.push((stamp.fetch_add(1, Ordering::Relaxed), table[tix][i].clone()));
                            continue;
                        }
                        // a scheduling point between operations (the unchanged crate has none of its own)
                        shuttle::thread::sleep(std::time::Duration::ZERO);
                        let out = exec(&*shared[op.slot], op);
                        let at = stamp.fetch_add(1, Ordering::Relaxed);
                        v.push((at, out));
                    }
                    v
                })
            })
            .collect();
        hs.into_iter().map(|h| h.join().expect("client thread panicked outside catch_unwind")).collect()
    });
    let mut flat: Vec<(usize, usize, usize)> = vec![];
    for (t, row) in results.iter().enumerate() {
        for (i, (at, out)) in row.iter().enumerate() {
            flat.push((*at, t, i));
            COMPARED.fetch_add(1, Ordering::Relaxed);
            let op = &spec.threads[t].ops[i];
            let cfg = &spec.slots[op.slot];
            // the C18 checks belong to the C18 check; a C17 run only compares with the reference
            if c18 && cfg.kind.is_probe() {
                let mut v18 = vec![];
                crate::engine::check_c18(op, cfg, out, t, i, *at, &mut v18);
                if let Some(v) = v18.into_iter().next() {
                    fail(v);
                }
            }
            if op.elem_fault == 0 && !out.same_answer(&table[t][i]) {
                let probe = c18 && cfg.kind.is_probe();
                fail(Violation {
                    property: if probe { "C18".into() } else { "C17".into() },
                    kind: if probe { "concurrent-operation-affected".into() } else { "result-mismatch".into() },
                    detail: format!("slot={} [{}] call={} want: {} got: {}", op.slot, cfg.label(), op.call.name(), table[t][i].brief(), out.brief()),
                    thread: t,
                    op: i,
                    step: *at,
                });
            }
        }
    }
    flat.sort();
    let mut order = Fnv::new();
    for (_, t, _) in &flat {
        order.byte(*t as u8);
    }
    {
        let mut o = ORDERS.lock().unwrap_or_else(|p| p.into_inner());
        if o.len() < 100_000 {
            o.push(order.0);
        }
    }
    // ---- epilogue: after the storm the shared instances answer as pristine ones ----------------
    for (t, th) in spec.threads.iter().enumerate() {
        for (i, op) in th.ops.iter().enumerate().take(2) {
            if panics(t, i) {
                continue;
            }
            let out = exec(&*shared[op.slot], op);
            COMPARED.fetch_add(1, Ordering::Relaxed);
            if op.elem_fault == 0 && !out.same_answer(&table[t][i]) {
                fail(Violation {
                    property: "C17".into(),
                    kind: "result-mismatch".into(),
                    detail: format!("epilogue: slot={} [{}] call={} want: {} got: {}", op.slot, spec.slots[op.slot].label(), op.call.name(), table[t][i].brief(), out.brief()),
                    thread: usize::MAX,
                    op: i,
                    step: flat.len(),
                });
            }
        }
    }
}

/// engine-C workloads, by index modulo 3: the dense single-interpolator workloads of engine B;
/// full engine-A worlds (several interpolators, up to 16 threads, every fault kind that does not
/// need the baton); "wide hammer" workloads (long axis, one hot key in each of many segments)
pub fn workload(seed: u64, index: u64, c18: bool) -> RunSpec {
    let (kind, sub) = (index % 3, index / 3);
    let mut spec = if c18 {
        if kind == 0 {
            crate::gen::gen_miri_c18(derive(derive(seed, 0x2718_2818), sub), sub).spec
        } else {
            crate::gen::gen_run(derive(derive(seed, 0xC18C), index), crate::gen::Mode::C18).spec
        }
    } else if kind == 0 {
        crate::gen::gen_miri(derive(derive(seed, 0x3141_5926), sub), sub).spec
    } else if kind == 1 {
        crate::gen::gen_run(derive(derive(seed, 0xC17C), index), crate::gen::Mode::C17).spec
    } else {
        let want = [Some(Kind::Linear), Some(Kind::Spline), Some(Kind::Bilinear), None][(sub % 4) as usize];
        crate::gen::gen_hammer_wide(derive(derive(seed, 0x51DE), sub), want).spec
    };
    // the baton's schedule fields mean nothing here
    spec.sched = Sched::RoundRobin { quantum: 1 };
    spec.stall = None;
    spec.ballast = 0;
    spec
}

fn install_hook() {
    // shuttle installs its hook once, when the first execution starts; ours goes on top of it
    // (from inside the first iteration) and filters the panics the harness is about to catch
    static DONE: std::sync::Once = std::sync::Once::new();
    DONE.call_once(|| {
        let inner = std::panic::take_hook();
        std::panic::set_hook(Box::new(move |info| {
            if EXPECTED.with(|e| e.get()) == 0 {
                inner(info);
            }
        }));
    });
}

pub enum Mode {
    Random,
    Pct(usize),
    Replay(String),
}

/// returns the process exit code: 0 = held on every schedule, 1 = violation (MISMATCH line)
pub fn run(spec: RunSpec, c18: bool, sched_seed: u64, iters: usize, mode: Mode, persist_dir: Option<String>) -> i32 {
    use shuttle::scheduler::{PctScheduler, RandomScheduler, ReplayScheduler};
    println!("WORKLOAD {:016x} slots={} threads={} ops={}", spec.workload_hash(), spec.slots.len(), spec.threads.len(), spec.n_ops());
    for c in &spec.slots {
        println!("SLOT {}", c.label());
    }
    // the clock seam: `std::time::Instant` inside the crate under test reads the simulated clock
    verif_std::time::sim_seed(sched_seed ^ 0xC10C);
    let mut config = shuttle::Config::new();
    config.failure_persistence = match &persist_dir {
        Some(d) => shuttle::FailurePersistence::File(Some(d.into())),
        None => shuttle::FailurePersistence::None,
    };
    config.max_steps = shuttle::MaxSteps::FailAfter(5_000_000);
    // PCT insists on concurrency; a one-thread world is a plain history
    let mode = match mode {
        Mode::Pct(_) if spec.threads.len() < 2 => Mode::Random,
        m => m,
    };
    let spec = std::sync::Arc::new(spec);
    let s2 = spec.clone();
    let body = move || {
        install_hook();
        run_once(&s2, c18);
    };
    let result = std::panic::catch_unwind(std::panic::AssertUnwindSafe(|| match mode {
        Mode::Random => shuttle::Runner::new(RandomScheduler::new_from_seed(sched_seed, iters), config).run(body),
        Mode::Pct(depth) => shuttle::Runner::new(PctScheduler::new_from_seed(sched_seed, depth, iters), config).run(body),
        Mode::Replay(path) => shuttle::Runner::new(ReplayScheduler::new_from_file(path).expect("schedule file"), config).run(body),
    }));
    let iters_done = ITER.load(Ordering::Relaxed);
    let (sim_ns, clock_reads) = verif_std::time::sim_stats();
    println!("CLOCK simulated_ns={} reads_by_crate={}", sim_ns, clock_reads);
    let orders = {
        let mut o = ORDERS.lock().unwrap_or_else(|p| p.into_inner()).clone();
        o.sort();
        o.dedup();
        o.len()
    };
    println!("ITERATIONS {} compared={} distinct_orders={}", iters_done, COMPARED.load(Ordering::Relaxed), orders);
    match result {
        Ok(_) => {
            println!("RESULT ok");
            0
        }
        Err(p) => {
            let v = VIOLATION.lock().unwrap_or_else(|p| p.into_inner()).take();
            let text = if let Some(s) = p.downcast_ref::<&str>() { s.to_string() } else if let Some(s) = p.downcast_ref::<String>() { s.clone() } else { "<panic>".into() };
            match v {
                Some(v) => {
                    println!("FAILED-AT iteration={}", iters_done);
                    println!("MISMATCH {}", serde_json::to_string(&v).unwrap());
                    println!("RESULT violation");
                    1
                }
                None => {
                    // shuttle's own verdicts: deadlock, step bound, a panic that escaped the harness
                    println!("FAILED-AT iteration={}", iters_done);
                    println!("SHUTTLE-PANIC {}", text.replace('\n', " | "));
                    println!("RESULT shuttle-panic");
                    4
                }
            }
        }
    }
}

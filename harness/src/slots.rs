//! The bridge between run-time configurations and the statically typed interpolators.
//!
//! `build_slot` turns a `SlotCfg` into a `Box<dyn Slot>` for every instantiation of the written-out
//! matrix (strategy x element type x storage x data dimension type); `Slot::exec` performs one
//! `Op` on it (selecting the static query dimension type) and returns the `Outcome` the oracle
//! compares. Every library call is wrapped in `catch_unwind`.

use std::any::Any;
use std::fmt::Debug;
use std::panic::{catch_unwind, AssertUnwindSafe};
use std::sync::Arc;

use ndarray::{
    ArcArray, Array, Array1, ArrayD, ArrayView, ArrayViewMutD, Axis, Data, DimAdd, Dimension, Ix0, Ix1, Ix2, Ix3, Ix4, Ix5, IxDyn,
    OwnedRepr, Slice,
};
use ndarray_interp::interp1d::cubic_spline::{BoundaryCondition, CubicSpline, RowBoundary, SingleBoundary};
use ndarray_interp::interp1d::{Interp1D, Interp1DBuilder, Interp1DStrategy, Linear};
use ndarray_interp::interp2d::{Bilinear, Interp2D, Interp2DBuilder, Interp2DStrategy};
use ndarray_interp::{BuilderError, InterpolateError};
use num_traits::{Num, NumCast};

use crate::stub::{self, Expect, OpCtx};
use crate::types::*;

// ---------------------------------------------------------------------------------------------
// element types
// ---------------------------------------------------------------------------------------------

pub trait El: Copy + Debug + PartialOrd + Num + NumCast + std::ops::Sub<Output = Self> + Send + Sync + 'static {
    fn from64(v: f64) -> Self;
    /// bit pattern as an f64 (exact and injective for f32), NaN canonicalised
    fn bits64(self) -> u64;
    fn poison() -> Self;
}
impl El for f64 {
    fn from64(v: f64) -> f64 {
        v
    }
    fn bits64(self) -> u64 {
        canon(self.to_bits())
    }
    fn poison() -> f64 {
        -1.234_567_890_123e300
    }
}
impl El for crate::yelem::Yf {
    fn from64(v: f64) -> Self {
        crate::yelem::Yf(v)
    }
    fn bits64(self) -> u64 {
        canon(self.0.to_bits())
    }
    fn poison() -> Self {
        crate::yelem::Yf(<f64 as El>::poison())
    }
}
impl El for i64 {
    fn from64(v: f64) -> i64 {
        if v.is_nan() {
            0
        } else {
            v.clamp(-1e9, 1e9) as i64
        }
    }
    fn bits64(self) -> u64 {
        (self as f64).to_bits()
    }
    fn poison() -> i64 {
        -123_456_789_012
    }
}
impl El for f32 {
    fn from64(v: f64) -> f32 {
        v as f32
    }
    fn bits64(self) -> u64 {
        canon((self as f64).to_bits())
    }
    fn poison() -> f32 {
        -1.234_567e30
    }
}

// ---------------------------------------------------------------------------------------------
// buffers and query arrays with a prescribed memory layout, inside a poison-filled allocation
// ---------------------------------------------------------------------------------------------

fn alloc_backing<T: El>(shape: &[usize], lay: Lay, fill: T) -> ArrayD<T> {
    if let Lay::Mix { perm, step, .. } = lay {
        let p = nth_perm(shape.len(), perm as usize);
        let dims: Vec<usize> = p.iter().map(|&a| if step >> a & 1 == 1 { 2 * shape[a] + 2 } else { shape[a] + 2 }).collect();
        return ArrayD::from_elem(IxDyn(&dims), fill);
    }
    let mut dims: Vec<usize> = shape
        .iter()
        .enumerate()
        .map(|(k, &d)| match lay {
            Lay::Step2 => 2 * d + 2,
            Lay::Wide | Lay::WideRev => 9 * d + 2,
            Lay::C => {
                if k == 0 {
                    d + 2
                } else {
                    d
                }
            }
            _ => d + 2,
        })
        .collect();
    if lay == Lay::F {
        dims.reverse();
    }
    ArrayD::from_elem(IxDyn(&dims), fill)
}

/// memory axis m holds logical axis p[m]; returns (slices per memory axis, inverse permutation)
fn mix_plan(shape: &[usize], perm: u16, rev: u8, step: u8) -> (Vec<Slice>, Vec<usize>) {
    let n = shape.len();
    let p = nth_perm(n, perm as usize);
    let mut inv = vec![0usize; n];
    let mut sl = vec![];
    for (m, &a) in p.iter().enumerate() {
        inv[a] = m;
        let d = shape[a] as isize;
        let st: isize = if step >> a & 1 == 1 { 2 } else { 1 };
        let sg: isize = if rev >> a & 1 == 1 { -1 } else { 1 };
        sl.push(Slice::new(1, Some(1 + d * st), st * sg));
    }
    (sl, inv)
}

fn window<'a, T: El>(mut v: ArrayViewMutD<'a, T>, shape: &[usize], lay: Lay) -> ArrayViewMutD<'a, T> {
    if let Lay::Mix { perm, rev, step } = lay {
        let (sl, inv) = mix_plan(shape, perm, rev, step);
        for (m, s) in sl.into_iter().enumerate() {
            v.slice_axis_inplace(Axis(m), s);
        }
        let v = v.permuted_axes(IxDyn(&inv));
        debug_assert_eq!(v.shape(), shape);
        return v;
    }
    let n = shape.len();
    for k in 0..n {
        // for F the backing has reversed axes
        let d = if lay == Lay::F { shape[n - 1 - k] } else { shape[k] } as isize;
        let sl = match lay {
            Lay::C => {
                if k == 0 {
                    Slice::new(1, Some(1 + d), 1)
                } else {
                    Slice::new(0, Some(d), 1)
                }
            }
            Lay::Window | Lay::F => Slice::new(1, Some(1 + d), 1),
            Lay::Step2 => Slice::new(1, Some(1 + 2 * d), 2),
            Lay::Wide => Slice::new(1, Some(1 + 9 * d), 9),
            Lay::WideRev => Slice::new(1, Some(1 + 9 * d), -9),
            Lay::Rev => Slice::new(1, Some(1 + d), -1),
            Lay::Mix { .. } => unreachable!("handled above"),
        };
        v.slice_axis_inplace(Axis(k), sl);
    }
    if lay == Lay::F {
        v = v.reversed_axes();
    }
    debug_assert_eq!(v.shape(), shape);
    v
}

fn fill_window<T: El>(w: &mut ArrayViewMutD<'_, T>, vals: &[Fb]) -> bool {
    if w.len() != vals.len() {
        return false;
    }
    for (t, v) in w.iter_mut().zip(vals) {
        *t = T::from64(v.0);
    }
    true
}

fn dump<T: El, S: Data<Elem = T>, D: Dimension>(a: &ndarray::ArrayBase<S, D>) -> Vec<u64> {
    a.iter().map(|v| v.bits64()).collect()
}

// ---------------------------------------------------------------------------------------------
// outcome helpers
// ---------------------------------------------------------------------------------------------

fn payload_text(p: Box<dyn Any + Send>) -> String {
    if let Some(s) = p.downcast_ref::<&str>() {
        s.to_string()
    } else if let Some(s) = p.downcast_ref::<String>() {
        s.clone()
    } else {
        "<non-string panic payload>".to_string()
    }
}

fn guard<R>(f: impl FnOnce() -> R) -> Result<R, String> {
    // engine C: shuttle's panic hook treats every panic as a test failure and persists a
    // schedule; panics we are about to catch (documented panics, stub panics) are expected
    #[cfg(feature = "engine_c")]
    let _quiet = crate::shuttle_mode::ExpectPanics::enter();
    catch_unwind(AssertUnwindSafe(f)).map_err(payload_text)
}

fn ierr(e: InterpolateError) -> Outcome {
    Outcome::new(Class::Err, format!("{e:?}"))
}

fn from_array<T: El>(r: Result<Result<ArrayD<T>, InterpolateError>, String>) -> Outcome {
    match r {
        Err(p) => Outcome::new(Class::Panic, p),
        Ok(Err(e)) => ierr(e),
        Ok(Ok(a)) => {
            let mut o = Outcome::new(Class::Ok, String::new());
            o.shape = a.shape().to_vec();
            o.bits = dump(&a);
            o
        }
    }
}

fn from_into<T: El>(r: Result<Result<(), InterpolateError>, String>, backing: &mut ArrayD<T>, spec: &BufSpec) -> Outcome {
    let mut o = match r {
        Err(p) => Outcome::new(Class::Panic, p),
        Ok(Err(e)) => ierr(e),
        Ok(Ok(())) => Outcome::new(Class::Ok, String::new()),
    };
    o.backing = dump(backing);
    let w = window(backing.view_mut(), &spec.shape, spec.lay);
    o.shape = w.shape().to_vec();
    o.bits = dump(&w);
    o
}

// ---------------------------------------------------------------------------------------------
// exec for 1-D interpolators, one function per static data dimension type
// ---------------------------------------------------------------------------------------------

macro_rules! scalar1 {
    (yes, $it:ident, $x:expr, $T:ident) => {
        match guard(|| $it.interp_scalar($T::from64($x))) {
            Err(p) => Outcome::new(Class::Panic, p),
            Ok(Err(e)) => ierr(e),
            Ok(Ok(v)) => {
                let mut o = Outcome::new(Class::Ok, String::new());
                o.bits = vec![v.bits64()];
                o
            }
        }
    };
    (no, $it:ident, $x:expr, $T:ident) => {
        from_array(guard(|| $it.interp($T::from64($x)).map(|a| a.into_dyn())))
    };
}

macro_rules! arr1 {
    ($it:ident, $q:ident, $T:ident, $Dq:ty) => {{
        let mut bk = alloc_backing::<$T>(&$q.shape, $q.lay, $T::from64(0.0));
        let mut w = window(bk.view_mut(), &$q.shape, $q.lay);
        if !fill_window(&mut w, &$q.xs) {
            Outcome::skip("query shape/values")
        } else {
            match w.into_dimensionality::<$Dq>() {
                Err(_) => Outcome::skip("query rank"),
                Ok(qv) => from_array(guard(|| $it.interp_array(&qv).map(|a| a.into_dyn()))),
            }
        }
    }};
}

macro_rules! arr_into1 {
    ($it:ident, $q:ident, $buf:ident, $T:ident, $Dq:ty, $Sm:ty) => {{
        let mut bk = alloc_backing::<$T>(&$q.shape, $q.lay, $T::from64(0.0));
        let mut w = window(bk.view_mut(), &$q.shape, $q.lay);
        if !fill_window(&mut w, &$q.xs) {
            Outcome::skip("query shape/values")
        } else {
            match w.into_dimensionality::<$Dq>() {
                Err(_) => Outcome::skip("query rank"),
                Ok(qv) => {
                    let mut bb = alloc_backing::<$T>(&$buf.shape, $buf.lay, $T::poison());
                    let r = {
                        let bw = window(bb.view_mut(), &$buf.shape, $buf.lay);
                        match bw.into_dimensionality::<<$Dq as DimAdd<$Sm>>::Output>() {
                            Err(_) => None,
                            Ok(bv) => Some(guard(|| $it.interp_array_into(&qv, bv))),
                        }
                    };
                    match r {
                        None => Outcome::skip("buffer rank"),
                        Some(r) => from_into(r, &mut bb, $buf),
                    }
                }
            }
        }
    }};
}

macro_rules! gen_exec1 {
    ($name:ident, $D:ty, $scalar:tt) => {
        pub fn $name<T, Sd, Sx, St>(it: &Interp1D<Sd, Sx, $D, St>, call: &Call) -> Outcome
        where
            T: El,
            Sd: Data<Elem = T>,
            Sx: Data<Elem = T>,
            St: Interp1DStrategy<Sd, Sx, $D>,
            Interp1D<Sd, Sx, $D, St>: MaybeSync,
        {
            match call {
                Call::Scalar { x, .. } => scalar1!($scalar, it, x.0, T),
                Call::Interp { x, .. } => from_array(guard(|| it.interp(T::from64(x.0)).map(|a| a.into_dyn()))),
                Call::InterpInto { x, buf, .. } => {
                    let mut bb = alloc_backing::<T>(&buf.shape, buf.lay, T::poison());
                    let r = {
                        let bw = window(bb.view_mut(), &buf.shape, buf.lay);
                        match bw.into_dimensionality::<<$D as Dimension>::Smaller>() {
                            Err(_) => None,
                            Ok(bv) => Some(guard(|| it.interp_into(T::from64(x.0), bv))),
                        }
                    };
                    match r {
                        None => Outcome::skip("buffer rank"),
                        Some(r) => from_into(r, &mut bb, buf),
                    }
                }
                Call::Array { q } => match q.ty {
                    QTy::Q0 => arr1!(it, q, T, Ix0),
                    QTy::Q1 => arr1!(it, q, T, Ix1),
                    QTy::Q2 => arr1!(it, q, T, Ix2),
                    QTy::Q3 => arr1!(it, q, T, Ix3),
                    QTy::QDyn => arr1!(it, q, T, IxDyn),
                },
                Call::ArrayInto { q, buf } => match q.ty {
                    QTy::Q0 => arr_into1!(it, q, buf, T, Ix0, <$D as Dimension>::Smaller),
                    QTy::Q1 => arr_into1!(it, q, buf, T, Ix1, <$D as Dimension>::Smaller),
                    QTy::Q2 => arr_into1!(it, q, buf, T, Ix2, <$D as Dimension>::Smaller),
                    QTy::Q3 => arr_into1!(it, q, buf, T, Ix3, <$D as Dimension>::Smaller),
                    QTy::QDyn => arr_into1!(it, q, buf, T, IxDyn, <$D as Dimension>::Smaller),
                },
                Call::IndexPoint { i, .. } => match guard(|| {
                    let (x, v) = it.index_point(*i);
                    (x, v.to_owned().into_dyn())
                }) {
                    Err(p) => Outcome::new(Class::Panic, p),
                    Ok((x, v)) => {
                        let mut o = Outcome::new(Class::Ok, String::new());
                        o.shape = v.shape().to_vec();
                        o.bits = std::iter::once(x.bits64()).chain(dump(&v)).collect();
                        o
                    }
                },
                Call::IndexLeftOf { x, .. } => match guard(|| it.get_index_left_of(T::from64(x.0))) {
                    Err(p) => Outcome::new(Class::Panic, p),
                    Ok(i) => {
                        let mut o = Outcome::new(Class::Ok, String::new());
                        o.bits = vec![i as u64];
                        o
                    }
                },
                Call::InRange { x, .. } => match guard(|| it.is_in_range(T::from64(x.0))) {
                    Err(p) => Outcome::new(Class::Panic, p),
                    Ok(b) => {
                        let mut o = Outcome::new(Class::Ok, String::new());
                        o.bits = vec![b as u64];
                        o
                    }
                },
                Call::Cow => Outcome::skip("cow on a slot without shared storage"),
                Call::Sibling { .. } => Outcome::skip("sibling on a slot whose storage cannot be shared"),
                Call::PrivBuild | Call::PrivQuery { .. } | Call::PrivSend | Call::PrivReap => Outcome::skip("thread-affinity operations are executed by engine A itself"),
                Call::Repeat { .. } => Outcome::skip("repetition is unrolled by `exec`"),
            }
        }
    };
}

gen_exec1!(exec1_ix1, Ix1, yes);
gen_exec1!(exec1_ix2, Ix2, no);
gen_exec1!(exec1_ix3, Ix3, no);
gen_exec1!(exec1_ix4, Ix4, no);
gen_exec1!(exec1_ix5, Ix5, no);
gen_exec1!(exec1_dyn, IxDyn, no);

// ---------------------------------------------------------------------------------------------
// exec for 2-D interpolators
// ---------------------------------------------------------------------------------------------

macro_rules! scalar2 {
    (yes, $it:ident, $x:expr, $y:expr, $T:ident) => {
        match guard(|| $it.interp_scalar($T::from64($x), $T::from64($y))) {
            Err(p) => Outcome::new(Class::Panic, p),
            Ok(Err(e)) => ierr(e),
            Ok(Ok(v)) => {
                let mut o = Outcome::new(Class::Ok, String::new());
                o.bits = vec![v.bits64()];
                o
            }
        }
    };
    (no, $it:ident, $x:expr, $y:expr, $T:ident) => {
        from_array(guard(|| $it.interp($T::from64($x), $T::from64($y)).map(|a| a.into_dyn())))
    };
}

macro_rules! prep_q2 {
    ($q:ident, $T:ident, $Dq:ty, $qx:ident, $qy:ident, $body:expr) => {{
        let ysh: &Vec<usize> = $q.ys_shape.as_ref().unwrap_or(&$q.shape);
        let mut bkx = alloc_backing::<$T>(&$q.shape, $q.lay, $T::from64(0.0));
        let mut bky = alloc_backing::<$T>(ysh, $q.ys_lay, $T::from64(0.0));
        let mut wx = window(bkx.view_mut(), &$q.shape, $q.lay);
        let mut wy = window(bky.view_mut(), ysh, $q.ys_lay);
        if !fill_window(&mut wx, &$q.xs) || !fill_window(&mut wy, &$q.ys) {
            Outcome::skip("query shape/values")
        } else {
            match (wx.into_dimensionality::<$Dq>(), wy.into_dimensionality::<$Dq>()) {
                (Ok($qx), Ok($qy)) => $body,
                _ => Outcome::skip("query rank"),
            }
        }
    }};
}

macro_rules! arr2 {
    ($it:ident, $q:ident, $T:ident, $Dq:ty) => {
        prep_q2!($q, $T, $Dq, qx, qy, from_array(guard(|| $it.interp_array(&qx, &qy).map(|a| a.into_dyn()))))
    };
}

macro_rules! arr_into2 {
    ($it:ident, $q:ident, $buf:ident, $T:ident, $Dq:ty, $Sm:ty) => {
        prep_q2!($q, $T, $Dq, qx, qy, {
            let mut bb = alloc_backing::<$T>(&$buf.shape, $buf.lay, $T::poison());
            let r = {
                let bw = window(bb.view_mut(), &$buf.shape, $buf.lay);
                match bw.into_dimensionality::<<$Dq as DimAdd<$Sm>>::Output>() {
                    Err(_) => None,
                    Ok(bv) => Some(guard(|| $it.interp_array_into(&qx, &qy, bv))),
                }
            };
            match r {
                None => Outcome::skip("buffer rank"),
                Some(r) => from_into(r, &mut bb, $buf),
            }
        })
    };
}

macro_rules! gen_exec2 {
    ($name:ident, $D:ty, $scalar:tt) => {
        pub fn $name<T, Sd, Sx, Sy, St>(it: &Interp2D<Sd, Sx, Sy, $D, St>, call: &Call) -> Outcome
        where
            T: El,
            Sd: Data<Elem = T>,
            Sx: Data<Elem = T>,
            Sy: Data<Elem = T>,
            St: Interp2DStrategy<Sd, Sx, Sy, $D>,
            Interp2D<Sd, Sx, Sy, $D, St>: MaybeSync,
        {
            match call {
                Call::Scalar { x, y } => scalar2!($scalar, it, x.0, y.0, T),
                Call::Interp { x, y } => from_array(guard(|| it.interp(T::from64(x.0), T::from64(y.0)).map(|a| a.into_dyn()))),
                Call::InterpInto { x, y, buf } => {
                    let mut bb = alloc_backing::<T>(&buf.shape, buf.lay, T::poison());
                    let r = {
                        let bw = window(bb.view_mut(), &buf.shape, buf.lay);
                        match bw.into_dimensionality::<<<$D as Dimension>::Smaller as Dimension>::Smaller>() {
                            Err(_) => None,
                            Ok(bv) => Some(guard(|| it.interp_into(T::from64(x.0), T::from64(y.0), bv))),
                        }
                    };
                    match r {
                        None => Outcome::skip("buffer rank"),
                        Some(r) => from_into(r, &mut bb, buf),
                    }
                }
                Call::Array { q } => match q.ty {
                    QTy::Q0 => arr2!(it, q, T, Ix0),
                    QTy::Q1 => arr2!(it, q, T, Ix1),
                    QTy::Q2 => arr2!(it, q, T, Ix2),
                    QTy::Q3 => arr2!(it, q, T, Ix3),
                    QTy::QDyn => arr2!(it, q, T, IxDyn),
                },
                Call::ArrayInto { q, buf } => match q.ty {
                    QTy::Q0 => arr_into2!(it, q, buf, T, Ix0, <<$D as Dimension>::Smaller as Dimension>::Smaller),
                    QTy::Q1 => arr_into2!(it, q, buf, T, Ix1, <<$D as Dimension>::Smaller as Dimension>::Smaller),
                    QTy::Q2 => arr_into2!(it, q, buf, T, Ix2, <<$D as Dimension>::Smaller as Dimension>::Smaller),
                    QTy::Q3 => arr_into2!(it, q, buf, T, Ix3, <<$D as Dimension>::Smaller as Dimension>::Smaller),
                    QTy::QDyn => arr_into2!(it, q, buf, T, IxDyn, <<$D as Dimension>::Smaller as Dimension>::Smaller),
                },
                Call::IndexPoint { i, j } => match guard(|| {
                    let (x, y, v) = it.index_point(*i, *j);
                    (x, y, v.to_owned().into_dyn())
                }) {
                    Err(p) => Outcome::new(Class::Panic, p),
                    Ok((x, y, v)) => {
                        let mut o = Outcome::new(Class::Ok, String::new());
                        o.shape = v.shape().to_vec();
                        o.bits = [x.bits64(), y.bits64()].into_iter().chain(dump(&v)).collect();
                        o
                    }
                },
                Call::IndexLeftOf { x, y } => match guard(|| it.get_index_left_of(T::from64(x.0), T::from64(y.0))) {
                    Err(p) => Outcome::new(Class::Panic, p),
                    Ok((i, j)) => {
                        let mut o = Outcome::new(Class::Ok, String::new());
                        o.bits = vec![i as u64, j as u64];
                        o
                    }
                },
                Call::InRange { x, y } => match guard(|| (it.is_in_x_range(T::from64(x.0)), it.is_in_y_range(T::from64(y.0)))) {
                    Err(p) => Outcome::new(Class::Panic, p),
                    Ok((a, b)) => {
                        let mut o = Outcome::new(Class::Ok, String::new());
                        o.bits = vec![a as u64, b as u64];
                        o
                    }
                },
                Call::Cow => Outcome::skip("cow on a slot without shared storage"),
                Call::Sibling { .. } => Outcome::skip("sibling on a slot whose storage cannot be shared"),
                Call::PrivBuild | Call::PrivQuery { .. } | Call::PrivSend | Call::PrivReap => Outcome::skip("thread-affinity operations are executed by engine A itself"),
                Call::Repeat { .. } => Outcome::skip("repetition is unrolled by `exec`"),
            }
        }
    };
}

gen_exec2!(exec2_ix2, Ix2, yes);
gen_exec2!(exec2_ix3, Ix3, no);
gen_exec2!(exec2_ix4, Ix4, no);
gen_exec2!(exec2_dyn, IxDyn, no);

// ---------------------------------------------------------------------------------------------
// Slot objects
// ---------------------------------------------------------------------------------------------

/// `Sync` on every tree whose interpolators are `Sync` (a change may add `Self: Sync` bounds to
/// the query methods, e.g. to evaluate batches in parallel: the generic helpers below must then be
/// able to promise it). For a tree whose interpolators are NOT `Sync` (reported by the static
/// probe) the driver builds with the feature `no_sync_bounds`, under which this promises nothing
/// and the `ForceSync` wrapper keeps engine A going.
#[cfg(not(feature = "no_sync_bounds"))]
pub trait MaybeSync: Sync {}
#[cfg(not(feature = "no_sync_bounds"))]
impl<T: Sync + ?Sized> MaybeSync for T {}
#[cfg(feature = "no_sync_bounds")]
pub trait MaybeSync {}
#[cfg(feature = "no_sync_bounds")]
impl<T: ?Sized> MaybeSync for T {}

pub trait Slot: Send + Sync {
    /// perform the library call (no stub context handling)
    fn call(&self, call: &Call) -> Outcome;
}

/// Engine A runs one thread at a time and hands over through a mutex, so even an interpolator
/// that is `!Sync` (a `Cell` cache added to the struct) is accessed race-free; its history
/// dependence is then still decided instead of being lost to a compile error. The `!Sync` itself
/// is reported by the static probe. Engine B (Miri) reports any actual race.
pub struct ForceSync<T>(pub T);
unsafe impl<T> Sync for ForceSync<T> {}
unsafe impl<T> Send for ForceSync<T> {}

/// frees leaked backing arrays of view-storage slots, after the interpolator is gone
pub struct Keep(Vec<Box<dyn FnOnce()>>);
impl Drop for Keep {
    fn drop(&mut self) {
        for f in self.0.drain(..) {
            f();
        }
    }
}

fn leak<A: 'static>(a: A, keep: &mut Keep) -> &'static A {
    let p: *mut A = Box::into_raw(Box::new(a));
    keep.0.push(Box::new(move || unsafe { drop(Box::from_raw(p)) }));
    unsafe { &*p }
}

/// builds a sibling interpolator over the same storage, queries it once, drops it
pub type SibFn = Box<dyn Fn(&Call) -> Outcome + Send + Sync>;

pub struct S1<T: El, Sd, Sx, D, St>
where
    Sd: Data<Elem = T>,
    Sx: Data<Elem = T>,
    D: Dimension,
    St: Interp1DStrategy<Sd, Sx, D>,
{
    // field order = drop order: the interpolator goes before the arrays its views point into
    it: ForceSync<Interp1D<Sd, Sx, D, St>>,
    cow: Option<ForceSync<ArcArray<T, D>>>,
    sib: Option<SibFn>,
    _keep: ForceSync<Keep>,
}

pub struct S2<T: El, Sd, Sx, Sy, D, St>
where
    Sd: Data<Elem = T>,
    Sx: Data<Elem = T>,
    Sy: Data<Elem = T>,
    D: Dimension,
{
    it: ForceSync<Interp2D<Sd, Sx, Sy, D, St>>,
    cow: Option<ForceSync<ArcArray<T, D>>>,
    sib: Option<SibFn>,
    _keep: ForceSync<Keep>,
}

/// sibling interpolators exist for f64 storage only (the spline strategy needs `SplineNum`)
pub trait SibEl: El {
    fn sib1<Sd, Sx, D>(data: ndarray::ArrayBase<Sd, D>, x: ndarray::ArrayBase<Sx, Ix1>) -> Option<SibFn>
    where
        Sd: Data<Elem = Self> + ndarray::RawDataClone + Send + Sync + 'static,
        Sx: Data<Elem = Self> + ndarray::RawDataClone + Send + Sync + 'static,
        D: Dimension + ndarray::RemoveAxis + Send + Sync + 'static;
    fn sib2<Sd, Sx, Sy, D>(data: ndarray::ArrayBase<Sd, D>, x: ndarray::ArrayBase<Sx, Ix1>, y: ndarray::ArrayBase<Sy, Ix1>) -> Option<SibFn>
    where
        Sd: Data<Elem = Self> + ndarray::RawDataClone + Send + Sync + 'static,
        Sx: Data<Elem = Self> + ndarray::RawDataClone + Send + Sync + 'static,
        Sy: Data<Elem = Self> + ndarray::RawDataClone + Send + Sync + 'static,
        D: Dimension + ndarray::RemoveAxis + Send + Sync + 'static,
        D::Smaller: ndarray::RemoveAxis;
}

impl SibEl for crate::yelem::Yf {
    fn sib1<Sd, Sx, D>(_: ndarray::ArrayBase<Sd, D>, _: ndarray::ArrayBase<Sx, Ix1>) -> Option<SibFn>
    where
        Sd: Data<Elem = Self> + ndarray::RawDataClone + Send + Sync + 'static,
        Sx: Data<Elem = Self> + ndarray::RawDataClone + Send + Sync + 'static,
        D: Dimension + ndarray::RemoveAxis + Send + Sync + 'static,
    {
        None
    }
    fn sib2<Sd, Sx, Sy, D>(_: ndarray::ArrayBase<Sd, D>, _: ndarray::ArrayBase<Sx, Ix1>, _: ndarray::ArrayBase<Sy, Ix1>) -> Option<SibFn>
    where
        Sd: Data<Elem = Self> + ndarray::RawDataClone + Send + Sync + 'static,
        Sx: Data<Elem = Self> + ndarray::RawDataClone + Send + Sync + 'static,
        Sy: Data<Elem = Self> + ndarray::RawDataClone + Send + Sync + 'static,
        D: Dimension + ndarray::RemoveAxis + Send + Sync + 'static,
        D::Smaller: ndarray::RemoveAxis,
    {
        None
    }
}

impl SibEl for i64 {
    fn sib1<Sd, Sx, D>(_: ndarray::ArrayBase<Sd, D>, _: ndarray::ArrayBase<Sx, Ix1>) -> Option<SibFn>
    where
        Sd: Data<Elem = Self> + ndarray::RawDataClone + Send + Sync + 'static,
        Sx: Data<Elem = Self> + ndarray::RawDataClone + Send + Sync + 'static,
        D: Dimension + ndarray::RemoveAxis + Send + Sync + 'static,
    {
        None
    }
    fn sib2<Sd, Sx, Sy, D>(_: ndarray::ArrayBase<Sd, D>, _: ndarray::ArrayBase<Sx, Ix1>, _: ndarray::ArrayBase<Sy, Ix1>) -> Option<SibFn>
    where
        Sd: Data<Elem = Self> + ndarray::RawDataClone + Send + Sync + 'static,
        Sx: Data<Elem = Self> + ndarray::RawDataClone + Send + Sync + 'static,
        Sy: Data<Elem = Self> + ndarray::RawDataClone + Send + Sync + 'static,
        D: Dimension + ndarray::RemoveAxis + Send + Sync + 'static,
        D::Smaller: ndarray::RemoveAxis,
    {
        None
    }
}

impl SibEl for f32 {
    fn sib1<Sd, Sx, D>(_: ndarray::ArrayBase<Sd, D>, _: ndarray::ArrayBase<Sx, Ix1>) -> Option<SibFn>
    where
        Sd: Data<Elem = Self> + ndarray::RawDataClone + Send + Sync + 'static,
        Sx: Data<Elem = Self> + ndarray::RawDataClone + Send + Sync + 'static,
        D: Dimension + ndarray::RemoveAxis + Send + Sync + 'static,
    {
        None
    }
    fn sib2<Sd, Sx, Sy, D>(_: ndarray::ArrayBase<Sd, D>, _: ndarray::ArrayBase<Sx, Ix1>, _: ndarray::ArrayBase<Sy, Ix1>) -> Option<SibFn>
    where
        Sd: Data<Elem = Self> + ndarray::RawDataClone + Send + Sync + 'static,
        Sx: Data<Elem = Self> + ndarray::RawDataClone + Send + Sync + 'static,
        Sy: Data<Elem = Self> + ndarray::RawDataClone + Send + Sync + 'static,
        D: Dimension + ndarray::RemoveAxis + Send + Sync + 'static,
        D::Smaller: ndarray::RemoveAxis,
    {
        None
    }
}

fn build_outcome<T: El>(r: Result<Result<Result<ArrayD<T>, InterpolateError>, BuilderError>, String>) -> Outcome {
    match r {
        Err(p) => Outcome::new(Class::Panic, p),
        Ok(Err(e)) => Outcome::new(Class::Err, format!("build: {e:?}")),
        Ok(Ok(q)) => from_array(Ok(q)),
    }
}

impl SibEl for f64 {
    fn sib1<Sd, Sx, D>(data: ndarray::ArrayBase<Sd, D>, x: ndarray::ArrayBase<Sx, Ix1>) -> Option<SibFn>
    where
        Sd: Data<Elem = f64> + ndarray::RawDataClone + Send + Sync + 'static,
        Sx: Data<Elem = f64> + ndarray::RawDataClone + Send + Sync + 'static,
        D: Dimension + ndarray::RemoveAxis + Send + Sync + 'static,
    {
        let hold = ForceSync((data, x));
        Some(Box::new(move |call: &Call| {
            let Call::Sibling { strat, x: qx, .. } = call else { return Outcome::skip("not a sibling call") };
            let (data, x) = (hold.0 .0.clone(), hold.0 .1.clone());
            match strat {
                SibStrat::Linear { extrapolate } => build_outcome(guard(|| {
                    Interp1DBuilder::new(data).x(x).strategy(Linear::new().extrapolate(*extrapolate)).build().map(|it| it.interp(qx.0).map(|a| a.into_dyn()))
                })),
                SibStrat::Spline { bc, extrapolate } => {
                    let bc: BoundaryCondition<f64, D> = match bc {
                        Bc::Natural => BoundaryCondition::Natural,
                        Bc::Clamped => BoundaryCondition::Clamped,
                        Bc::Periodic => BoundaryCondition::Periodic,
                        _ => BoundaryCondition::NotAKnot,
                    };
                    build_outcome(guard(|| {
                        Interp1DBuilder::new(data)
                            .x(x)
                            .strategy(CubicSpline::new().extrapolate(*extrapolate).boundary(bc))
                            .build()
                            .map(|it| it.interp(qx.0).map(|a| a.into_dyn()))
                    }))
                }
                SibStrat::Bilinear { .. } => Outcome::skip("2-D sibling on a 1-D slot"),
            }
        }))
    }
    fn sib2<Sd, Sx, Sy, D>(data: ndarray::ArrayBase<Sd, D>, x: ndarray::ArrayBase<Sx, Ix1>, y: ndarray::ArrayBase<Sy, Ix1>) -> Option<SibFn>
    where
        Sd: Data<Elem = f64> + ndarray::RawDataClone + Send + Sync + 'static,
        Sx: Data<Elem = f64> + ndarray::RawDataClone + Send + Sync + 'static,
        Sy: Data<Elem = f64> + ndarray::RawDataClone + Send + Sync + 'static,
        D: Dimension + ndarray::RemoveAxis + Send + Sync + 'static,
        D::Smaller: ndarray::RemoveAxis,
    {
        let hold = ForceSync((data, x, y));
        Some(Box::new(move |call: &Call| {
            let Call::Sibling { strat, x: qx, y: qy } = call else { return Outcome::skip("not a sibling call") };
            let (data, x, y) = (hold.0 .0.clone(), hold.0 .1.clone(), hold.0 .2.clone());
            match strat {
                SibStrat::Bilinear { extrapolate } => build_outcome(guard(|| {
                    Interp2DBuilder::new(data)
                        .x(x)
                        .y(y)
                        .strategy(Bilinear::new().extrapolate(*extrapolate))
                        .build()
                        .map(|it| it.interp(qx.0, qy.0).map(|a| a.into_dyn()))
                })),
                _ => Outcome::skip("1-D sibling on a 2-D slot"),
            }
        }))
    }
}

fn do_cow<T: El, D: Dimension>(master: &ArcArray<T, D>) -> Outcome {
    match guard(|| {
        let mut h = master.clone();
        if let Some(e) = h.iter_mut().next() {
            *e = T::from64(777.0);
        }
        let first = h.iter().next().map(|v| v.bits64()).unwrap_or(0);
        drop(h);
        first
    }) {
        Err(p) => Outcome::new(Class::Panic, p),
        Ok(_) => Outcome::new(Class::Ok, String::new()),
    }
}

macro_rules! impl_slot1 {
    ($D:ty, $f:ident) => {
        impl<T: El, Sd, Sx, St> Slot for S1<T, Sd, Sx, $D, St>
        where
            Sd: Data<Elem = T>,
            Sx: Data<Elem = T>,
            St: Interp1DStrategy<Sd, Sx, $D>,
            Interp1D<Sd, Sx, $D, St>: MaybeSync,
        {
            fn call(&self, call: &Call) -> Outcome {
                if let (Call::Cow, Some(m)) = (call, &self.cow) {
                    return do_cow(&m.0);
                }
                if let (Call::Sibling { .. }, Some(f)) = (call, &self.sib) {
                    return f(call);
                }
                $f(&self.it.0, call)
            }
        }
    };
}
impl_slot1!(Ix1, exec1_ix1);
impl_slot1!(Ix2, exec1_ix2);
impl_slot1!(Ix3, exec1_ix3);
impl_slot1!(Ix4, exec1_ix4);
impl_slot1!(Ix5, exec1_ix5);
impl_slot1!(IxDyn, exec1_dyn);

macro_rules! impl_slot2 {
    ($D:ty, $f:ident) => {
        impl<T: El, Sd, Sx, Sy, St> Slot for S2<T, Sd, Sx, Sy, $D, St>
        where
            Sd: Data<Elem = T>,
            Sx: Data<Elem = T>,
            Sy: Data<Elem = T>,
            St: Interp2DStrategy<Sd, Sx, Sy, $D>,
            Interp2D<Sd, Sx, Sy, $D, St>: MaybeSync,
        {
            fn call(&self, call: &Call) -> Outcome {
                if let (Call::Cow, Some(m)) = (call, &self.cow) {
                    return do_cow(&m.0);
                }
                if let (Call::Sibling { .. }, Some(f)) = (call, &self.sib) {
                    return f(call);
                }
                $f(&self.it.0, call)
            }
        }
    };
}
impl_slot2!(Ix2, exec2_ix2);
impl_slot2!(Ix3, exec2_ix3);
impl_slot2!(Ix4, exec2_ix4);
impl_slot2!(IxDyn, exec2_dyn);

/// the query elements of a call as the stub will see them
pub fn query_of(call: &Call) -> Vec<(u64, u64)> {
    match call {
        Call::Repeat { inner, .. } | Call::PrivQuery { inner } => query_of(inner),
        Call::Scalar { x, y } | Call::Interp { x, y } | Call::InterpInto { x, y, .. } => vec![(canon(x.bits()), canon(y.bits()))],
        Call::Array { q } | Call::ArrayInto { q, .. } => {
            if q.ys.is_empty() {
                q.xs.iter().map(|x| (canon(x.bits()), 0)).collect()
            } else {
                q.xs.iter().zip(q.ys.iter()).map(|(x, y)| (canon(x.bits()), canon(y.bits()))).collect()
            }
        }
        _ => vec![],
    }
}

/// run one operation on a slot: publish the stub context, call, collect what the stub saw
pub fn exec(slot: &dyn Slot, op: &Op) -> Outcome {
    let q = query_of(&op.call);
    let n = q.len();
    let prev_ctx = stub::install_ctx(Some(OpCtx { query: q, plan: op.plan.clone(), yield_mask: op.yield_mask, check_acc: op.check_acc, log: StubLog::default(), foreign_taken: vec![false; n] }));
    // re-entrancy: a callback whose plan says `Nest` calls back into this very slot
    // Safety: the pointer is only dereferenced by callbacks running inside `slot.call` below, on
    // this thread, and is cleared before `exec` returns.
    let ptr: *const (dyn Slot + 'static) = unsafe { std::mem::transmute::<*const (dyn Slot + '_), *const (dyn Slot + 'static)>(slot as *const dyn Slot) };
    let prev = stub::CUR_SLOT.with(|c| c.replace(Some(ptr)));
    // the numeric-type seam: element operations of this call may yield or fail (no-op unless the
    // slot's element type is `Yf`; yields only when the thread runs under the baton)
    crate::yelem::arm(op.yield_mask, op.elem_fault);
    let noctx0 = stub::NOCTX_CALLBACKS.load(std::sync::atomic::Ordering::Relaxed);
    // calls made outside the baton (reference tabulation, epilogue: main thread) have no
    // supervisor of their own: the process-level watchdog looks at this time stamp
    let unsupervised = crate::watch::enabled() && !crate::sched::on_client_thread();
    if unsupervised {
        crate::watch::begin(op.plan.iter().any(|a| matches!(a, Act::Nest { .. })));
    }
    let mut out = match &op.call {
        Call::Repeat { inner, times } => {
            let first = slot.call(inner);
            let mut last = first.clone();
            for _ in 1..*times {
                last = slot.call(inner);
                if !last.same_answer(&first) {
                    break;
                }
            }
            last
        }
        _ => slot.call(&op.call),
    };
    if unsupervised {
        crate::watch::end();
    }
    let foreign = stub::NOCTX_CALLBACKS.load(std::sync::atomic::Ordering::Relaxed) != noctx0;
    let (elem_yields, fired) = crate::yelem::disarm();
    stub::CUR_SLOT.with(|c| c.set(prev));
    if let Some(log) = stub::restore_ctx(prev_ctx) {
        out.stub = log;
    }
    out.stub.elem_yields = elem_yields;
    out.stub.elem_fault_fired = fired;
    out.stub.foreign_callbacks = foreign;
    out
}

// ---------------------------------------------------------------------------------------------
// building slots
// ---------------------------------------------------------------------------------------------

#[derive(Debug, Clone, PartialEq)]
pub enum BuildFail {
    /// build() returned Err: (variant name, text)
    Err(String, String),
    Panic(String),
    /// the harness has no instantiation for this configuration
    Unsupported(String),
}

fn berr(e: BuilderError) -> BuildFail {
    let (v, t) = match &e {
        BuilderError::NotEnoughData(t) => ("NotEnoughData", t.clone()),
        BuilderError::Monotonic(t) => ("Monotonic", t.clone()),
        BuilderError::ShapeError(t) => ("ShapeError", t.clone()),
        BuilderError::ValueError(t) => ("ValueError", t.clone()),
    };
    (|| BuildFail::Err(v.to_string(), t))()
}

fn data_array<T: El, D: Dimension>(cfg: &SlotCfg) -> Result<Array<T, D>, BuildFail> {
    let vals: Vec<T> = cfg.data.iter().map(|f| T::from64(f.0)).collect();
    let mut a = ArrayD::from_shape_vec(IxDyn(&cfg.shape), vals).map_err(|e| BuildFail::Unsupported(format!("data: {e}")))?;
    if cfg.data_lay == Lay::F && cfg.shape.len() >= 2 {
        // same logical contents, column-major memory order
        use ndarray::ShapeBuilder;
        let mut f = ArrayD::from_elem(IxDyn(&cfg.shape).f(), T::from64(0.0));
        f.assign(&a);
        a = f;
    }
    if let (Lay::Mix { perm, rev, .. }, true) = (cfg.data_lay, matches!(cfg.storage, Storage::Owned | Storage::Shared)) {
        // an owned array whose axes are permuted in memory and partly inverted (what
        // `permuted_axes` / `invert_axis` on an owned array give); same logical contents
        let n = cfg.shape.len();
        let p = nth_perm(n, perm as usize);
        let mut inv = vec![0usize; n];
        for (m, &ax) in p.iter().enumerate() {
            inv[ax] = m;
        }
        let dims_mem: Vec<usize> = p.iter().map(|&ax| cfg.shape[ax]).collect();
        let mut f = ArrayD::from_elem(IxDyn(&dims_mem), T::from64(0.0)).permuted_axes(IxDyn(&inv));
        for ax in 0..n {
            if rev >> ax & 1 == 1 {
                f.invert_axis(Axis(ax));
            }
        }
        f.assign(&a);
        a = f;
    }
    a.into_dimensionality::<D>().map_err(|e| BuildFail::Unsupported(format!("data rank: {e}")))
}

fn window_ref<'a, T: El>(mut v: ndarray::ArrayViewD<'a, T>, shape: &[usize], lay: Lay) -> ndarray::ArrayViewD<'a, T> {
    if let Lay::Mix { perm, rev, step } = lay {
        let (sl, inv) = mix_plan(shape, perm, rev, step);
        for (m, s) in sl.into_iter().enumerate() {
            v.slice_axis_inplace(Axis(m), s);
        }
        return v.permuted_axes(IxDyn(&inv));
    }
    let n = shape.len();
    for k in 0..n {
        let d = if lay == Lay::F { shape[n - 1 - k] } else { shape[k] } as isize;
        let sl = match lay {
            Lay::C => {
                if k == 0 {
                    Slice::new(1, Some(1 + d), 1)
                } else {
                    Slice::new(0, Some(d), 1)
                }
            }
            Lay::Window | Lay::F => Slice::new(1, Some(1 + d), 1),
            Lay::Step2 => Slice::new(1, Some(1 + 2 * d), 2),
            Lay::Wide => Slice::new(1, Some(1 + 9 * d), 9),
            Lay::WideRev => Slice::new(1, Some(1 + 9 * d), -9),
            Lay::Rev => Slice::new(1, Some(1 + d), -1),
            Lay::Mix { .. } => unreachable!("handled above"),
        };
        v.slice_axis_inplace(Axis(k), sl);
    }
    if lay == Lay::F {
        v = v.reversed_axes();
    }
    v
}

/// a `'static` view with the requested memory layout over a leaked allocation (freed by `keep`)
fn leak_view<T: El, D: Dimension + 'static>(owned: Array<T, D>, lay: Lay, keep: &mut Keep) -> Result<ArrayView<'static, T, D>, BuildFail> {
    match lay {
        Lay::C | Lay::F => {
            let d: &'static Array<T, D> = leak(owned, keep);
            Ok(d.view())
        }
        _ => {
            let shape = owned.shape().to_vec();
            let mut backing = alloc_backing::<T>(&shape, lay, T::poison());
            window(backing.view_mut(), &shape, lay).assign(&owned.view().into_dyn());
            let b: &'static ArrayD<T> = leak(backing, keep);
            window_ref(b.view(), &shape, lay).into_dimensionality::<D>().map_err(|e| BuildFail::Unsupported(format!("view rank: {e}")))
        }
    }
}

fn axis_array<T: El>(v: &[Fb]) -> Array1<T> {
    Array1::from_iter(v.iter().map(|f| T::from64(f.0)))
}

fn single_b<T: El>(s: &SingleB) -> SingleBoundary<T> {
    match s {
        SingleB::NotAKnot => SingleBoundary::NotAKnot,
        SingleB::Natural => SingleBoundary::Natural,
        SingleB::Clamped => SingleBoundary::Clamped,
        SingleB::First(v) => SingleBoundary::FirstDeriv(T::from64(v.0)),
        SingleB::Second(v) => SingleBoundary::SecondDeriv(T::from64(v.0)),
    }
}

fn boundary<T: El, D: Dimension>(cfg: &SlotCfg) -> Result<BoundaryCondition<T, D>, BuildFail> {
    Ok(match &cfg.bc {
        Bc::NotAKnot => BoundaryCondition::NotAKnot,
        Bc::Natural => BoundaryCondition::Natural,
        Bc::Clamped => BoundaryCondition::Clamped,
        Bc::Periodic => BoundaryCondition::Periodic,
        Bc::Individual(rows) => {
            let mut shape = cfg.shape.clone();
            shape[0] = 1;
            let rows: Vec<RowBoundary<T>> = rows
                .iter()
                .map(|r| match r {
                    RowB::NotAKnot => RowBoundary::NotAKnot,
                    RowB::Natural => RowBoundary::Natural,
                    RowB::Clamped => RowBoundary::Clamped,
                    RowB::Mixed(l, r) => RowBoundary::Mixed { left: single_b(l), right: single_b(r) },
                })
                .collect();
            let a = ArrayD::from_shape_vec(IxDyn(&shape), rows).map_err(|e| BuildFail::Unsupported(format!("bounds: {e}")))?;
            BoundaryCondition::Individual(a.into_dimensionality::<D>().map_err(|e| BuildFail::Unsupported(format!("bounds rank: {e}")))?)
        }
    })
}

/// finish a 1-D slot from ready-made arrays: `$data`, `$x` (Option for owned axes), strategy `$strat`
macro_rules! finish1 {
    ($T:ty, $D:ty, $data:expr, $x:expr, $strat:expr, $cow:expr, $sib:expr, $keep:expr) => {{
        let r = guard(|| match BUILD_ORDER.with(|o| o.get()) {
            1 => Interp1DBuilder::new($data).strategy($strat).x($x).build(),
            2 => {
                let real = $x;
                let decoy = real.clone().slice_move(ndarray::s![..;-1]);
                Interp1DBuilder::new($data).x(decoy).x(real).strategy($strat).build()
            }
            _ => Interp1DBuilder::new($data).x($x).strategy($strat).build(),
        });
        match r {
            Err(p) => Err(BuildFail::Panic(p)),
            Ok(Err(e)) => Err(berr(e)),
            Ok(Ok(it)) => Ok(Box::new(S1::<$T, _, _, $D, _> { it: ForceSync(it), cow: $cow, sib: $sib, _keep: ForceSync($keep) }) as Box<dyn Slot>),
        }
    }};
    (default_axis; $T:ty, $D:ty, $data:expr, $strat:expr, $cow:expr, $sib:expr, $keep:expr) => {{
        let r = guard(|| Interp1DBuilder::new($data).strategy($strat).build());
        match r {
            Err(p) => Err(BuildFail::Panic(p)),
            Ok(Err(e)) => Err(berr(e)),
            Ok(Ok(it)) => Ok(Box::new(S1::<$T, _, _, $D, _> { it: ForceSync(it), cow: $cow, sib: $sib, _keep: ForceSync($keep) }) as Box<dyn Slot>),
        }
    }};
}

/// all storages for one (element type, data dim type, strategy expression)
macro_rules! storages1 {
    ($cfg:ident, $T:ty, $D:ty, $strat:expr) => {{
        let data: Array<$T, $D> = data_array::<$T, $D>($cfg)?;
        let xv: Option<Array1<$T>> = $cfg.x.as_ref().map(|v| axis_array::<$T>(v));
        let dflt = || -> Array1<$T> { Array1::from_iter($cfg.axis_x().into_iter().map(<$T as El>::from64)) };
        let mut keep = Keep(vec![]);
        match $cfg.storage {
            Storage::Owned => match xv {
                Some(x) => finish1!($T, $D, data, x, $strat, None, None, keep),
                None => finish1!(default_axis; $T, $D, data, $strat, None, None, keep),
            },
            Storage::View => {
                let d = leak_view::<$T, $D>(data, $cfg.data_lay, &mut keep)?;
                let x = leak_view::<$T, ndarray::Ix1>(xv.unwrap_or_else(dflt), $cfg.x_lay, &mut keep)?;
                let sib = <$T as SibEl>::sib1(d.clone(), x.clone());
                finish1!($T, $D, d, x, $strat, None, sib, keep)
            }
            Storage::DataView => {
                let d = leak_view::<$T, $D>(data, $cfg.data_lay, &mut keep)?;
                let xs: &'static Array1<$T> = leak($cfg.axis_x().into_iter().map(<$T as El>::from64).collect::<Array1<$T>>(), &mut keep);
                let sib = <$T as SibEl>::sib1(d.clone(), xs.view());
                match xv {
                    Some(x) => finish1!($T, $D, d, x, $strat, None, sib, keep),
                    None => finish1!(default_axis; $T, $D, d, $strat, None, sib, keep),
                }
            }
            Storage::Shared => {
                let d: ArcArray<$T, $D> = data.into_shared();
                let master = d.clone();
                let x: ArcArray<$T, ndarray::Ix1> = xv.unwrap_or_else(dflt).into_shared();
                let sib = <$T as SibEl>::sib1(d.clone(), x.clone());
                finish1!($T, $D, d, x, $strat, Some(ForceSync(master)), sib, keep)
            }
        }
    }};
}

/// owned storage only (static ranks 4 and 5, f32 splines)
macro_rules! owned1 {
    ($cfg:ident, $T:ty, $D:ty, $strat:expr) => {{
        let data: Array<$T, $D> = data_array::<$T, $D>($cfg)?;
        let xv: Option<Array1<$T>> = $cfg.x.as_ref().map(|v| axis_array::<$T>(v));
        let keep = Keep(vec![]);
        match xv {
            Some(x) => finish1!($T, $D, data, x, $strat, None, None, keep),
            None => finish1!(default_axis; $T, $D, data, $strat, None, None, keep),
        }
    }};
}

macro_rules! owned2 {
    ($cfg:ident, $T:ty, $D:ty, $strat:expr) => {{
        let data: Array<$T, $D> = data_array::<$T, $D>($cfg)?;
        let keep = Keep(vec![]);
        if $cfg.x.is_some() || $cfg.y.is_some() {
            let xv: Array1<$T> = match &$cfg.x { Some(v) => axis_array::<$T>(v), None => Array1::from_iter($cfg.axis_x().into_iter().map(<$T as El>::from64)) };
            let yv: Array1<$T> = match &$cfg.y { Some(v) => axis_array::<$T>(v), None => Array1::from_iter($cfg.axis_y().into_iter().map(<$T as El>::from64)) };
            finish2!($T, $D, data, xv, yv, $strat, None, None, keep)
        } else {
            finish2!(default_axis; $T, $D, data, $strat, None, None, keep)
        }
    }};
}

macro_rules! probe1_min_owned {
    ($cfg:ident, $D:ty) => {{
        let e = Arc::new(Expect::from_cfg($cfg));
        match $cfg.probe_min {
            0 => owned1!($cfg, f64, $D, stub::Probe1::<0> { e: e.clone() }),
            1 => owned1!($cfg, f64, $D, stub::Probe1::<1> { e: e.clone() }),
            2 => owned1!($cfg, f64, $D, stub::Probe1::<2> { e: e.clone() }),
            3 => owned1!($cfg, f64, $D, stub::Probe1::<3> { e: e.clone() }),
            4 => owned1!($cfg, f64, $D, stub::Probe1::<4> { e: e.clone() }),
            m => Err(BuildFail::Unsupported(format!("probe minimum {m}"))),
        }
    }};
}

macro_rules! probe2_min_owned {
    ($cfg:ident, $D:ty) => {{
        let e = Arc::new(Expect::from_cfg($cfg));
        match $cfg.probe_min {
            0 => owned2!($cfg, f64, $D, stub::Probe2::<0> { e: e.clone() }),
            1 => owned2!($cfg, f64, $D, stub::Probe2::<1> { e: e.clone() }),
            2 => owned2!($cfg, f64, $D, stub::Probe2::<2> { e: e.clone() }),
            3 => owned2!($cfg, f64, $D, stub::Probe2::<3> { e: e.clone() }),
            4 => owned2!($cfg, f64, $D, stub::Probe2::<4> { e: e.clone() }),
            m => Err(BuildFail::Unsupported(format!("probe minimum {m}"))),
        }
    }};
}

macro_rules! probe1_min {
    ($cfg:ident, $D:ty) => {{
        let e = Arc::new(Expect::from_cfg($cfg));
        match $cfg.probe_min {
            0 => storages1!($cfg, f64, $D, stub::Probe1::<0> { e: e.clone() }),
            1 => storages1!($cfg, f64, $D, stub::Probe1::<1> { e: e.clone() }),
            2 => storages1!($cfg, f64, $D, stub::Probe1::<2> { e: e.clone() }),
            3 => storages1!($cfg, f64, $D, stub::Probe1::<3> { e: e.clone() }),
            4 => storages1!($cfg, f64, $D, stub::Probe1::<4> { e: e.clone() }),
            m => Err(BuildFail::Unsupported(format!("probe minimum {m}"))),
        }
    }};
}

macro_rules! finish2 {
    ($T:ty, $D:ty, $data:expr, $x:expr, $y:expr, $strat:expr, $cow:expr, $sib:expr, $keep:expr) => {{
        let r = guard(|| match BUILD_ORDER.with(|o| o.get()) {
            1 => Interp2DBuilder::new($data).strategy($strat).y($y).x($x).build(),
            2 => {
                let real = $x;
                let decoy = real.clone().slice_move(ndarray::s![..;-1]);
                Interp2DBuilder::new($data).x(decoy).y($y).x(real).strategy($strat).build()
            }
            3 => Interp2DBuilder::new($data).y($y).x($x).strategy($strat).build(),
            _ => Interp2DBuilder::new($data).x($x).y($y).strategy($strat).build(),
        });
        match r {
            Err(p) => Err(BuildFail::Panic(p)),
            Ok(Err(e)) => Err(berr(e)),
            Ok(Ok(it)) => Ok(Box::new(S2::<$T, _, _, _, $D, _> { it: ForceSync(it), cow: $cow, sib: $sib, _keep: ForceSync($keep) }) as Box<dyn Slot>),
        }
    }};
    (default_axis; $T:ty, $D:ty, $data:expr, $strat:expr, $cow:expr, $sib:expr, $keep:expr) => {{
        let r = guard(|| Interp2DBuilder::new($data).strategy($strat).build());
        match r {
            Err(p) => Err(BuildFail::Panic(p)),
            Ok(Err(e)) => Err(berr(e)),
            Ok(Ok(it)) => Ok(Box::new(S2::<$T, _, _, _, $D, _> { it: ForceSync(it), cow: $cow, sib: $sib, _keep: ForceSync($keep) }) as Box<dyn Slot>),
        }
    }};
}

macro_rules! storages2 {
    ($cfg:ident, $T:ty, $D:ty, $strat:expr) => {{
        let data: Array<$T, $D> = data_array::<$T, $D>($cfg)?;
        let explicit = $cfg.x.is_some() || $cfg.y.is_some();
        let xv: Array1<$T> = Array1::from_iter($cfg.axis_x().into_iter().map(<$T as El>::from64));
        let yv: Array1<$T> = Array1::from_iter($cfg.axis_y().into_iter().map(<$T as El>::from64));
        // explicit axes may have any length (builder decision table); default axes follow the data
        let xv = match &$cfg.x { Some(v) => axis_array::<$T>(v), None => xv };
        let yv = match &$cfg.y { Some(v) => axis_array::<$T>(v), None => yv };
        let mut keep = Keep(vec![]);
        match $cfg.storage {
            Storage::Owned => {
                if explicit {
                    finish2!($T, $D, data, xv, yv, $strat, None, None, keep)
                } else {
                    finish2!(default_axis; $T, $D, data, $strat, None, None, keep)
                }
            }
            Storage::View => {
                let d = leak_view::<$T, $D>(data, $cfg.data_lay, &mut keep)?;
                let x = leak_view::<$T, ndarray::Ix1>(xv, $cfg.x_lay, &mut keep)?;
                let y = leak_view::<$T, ndarray::Ix1>(yv, $cfg.x_lay, &mut keep)?;
                let sib = <$T as SibEl>::sib2(d.clone(), x.clone(), y.clone());
                finish2!($T, $D, d, x, y, $strat, None, sib, keep)
            }
            Storage::DataView => {
                let d = leak_view::<$T, $D>(data, $cfg.data_lay, &mut keep)?;
                let xs: &'static Array1<$T> = leak(xv.clone(), &mut keep);
                let ys: &'static Array1<$T> = leak(yv.clone(), &mut keep);
                let sib = <$T as SibEl>::sib2(d.clone(), xs.view(), ys.view());
                if explicit {
                    finish2!($T, $D, d, xv, yv, $strat, None, sib, keep)
                } else {
                    finish2!(default_axis; $T, $D, d, $strat, None, sib, keep)
                }
            }
            Storage::Shared => {
                let d: ArcArray<$T, $D> = data.into_shared();
                let master = d.clone();
                let (xs, ys) = (xv.into_shared(), yv.into_shared());
                let sib = <$T as SibEl>::sib2(d.clone(), xs.clone(), ys.clone());
                finish2!($T, $D, d, xs, ys, $strat, Some(ForceSync(master)), sib, keep)
            }
        }
    }};
}

macro_rules! probe2_min {
    ($cfg:ident, $D:ty) => {{
        let e = Arc::new(Expect::from_cfg($cfg));
        match $cfg.probe_min {
            0 => storages2!($cfg, f64, $D, stub::Probe2::<0> { e: e.clone() }),
            1 => storages2!($cfg, f64, $D, stub::Probe2::<1> { e: e.clone() }),
            2 => storages2!($cfg, f64, $D, stub::Probe2::<2> { e: e.clone() }),
            3 => storages2!($cfg, f64, $D, stub::Probe2::<3> { e: e.clone() }),
            4 => storages2!($cfg, f64, $D, stub::Probe2::<4> { e: e.clone() }),
            m => Err(BuildFail::Unsupported(format!("probe minimum {m}"))),
        }
    }};
}

/// The written-out instantiation matrix. Anything not listed is `Unsupported`
/// (`supported()` mirrors this match and a self-test checks that they agree).
crate::tls! {
    /// setter order for the build in progress on this thread (see `SlotCfg::build_order`)
    static BUILD_ORDER: std::cell::Cell<u8> = const { std::cell::Cell::new(0) };
}

pub fn build_slot(cfg: &SlotCfg) -> Result<Box<dyn Slot>, BuildFail> {
    BUILD_ORDER.with(|o| o.set(cfg.build_order));
    if !supported(cfg.kind, cfg.elem, cfg.storage, cfg.dimty, cfg.probe_min) {
        return Err(BuildFail::Unsupported(cfg.label()));
    }
    let _ = stub::take_build_log();
    let e = cfg.extrapolate;
    match (cfg.kind, cfg.elem, cfg.dimty) {
        (Kind::Linear, Elem::F64, DimTy::Ix1) => storages1!(cfg, f64, ndarray::Ix1, ndarray_interp::interp1d::Linear::new().extrapolate(e)),
        (Kind::Linear, Elem::F64, DimTy::Ix2) => storages1!(cfg, f64, ndarray::Ix2, ndarray_interp::interp1d::Linear::new().extrapolate(e)),
        (Kind::Linear, Elem::F64, DimTy::Ix3) => storages1!(cfg, f64, ndarray::Ix3, ndarray_interp::interp1d::Linear::new().extrapolate(e)),
        (Kind::Linear, Elem::F64, DimTy::IxDyn) => storages1!(cfg, f64, ndarray::IxDyn, ndarray_interp::interp1d::Linear::new().extrapolate(e)),
        (Kind::Linear, Elem::F32, DimTy::Ix1) => storages1!(cfg, f32, ndarray::Ix1, ndarray_interp::interp1d::Linear::new().extrapolate(e)),
        (Kind::Linear, Elem::F32, DimTy::Ix2) => storages1!(cfg, f32, ndarray::Ix2, ndarray_interp::interp1d::Linear::new().extrapolate(e)),
        (Kind::Spline, Elem::F64, DimTy::Ix1) => {
            let bc = boundary::<f64, ndarray::Ix1>(cfg)?;
            let mut bc = Some(bc);
            storages1!(cfg, f64, ndarray::Ix1, CubicSpline::new().extrapolate(e).boundary(bc.take().unwrap()))
        }
        (Kind::Spline, Elem::F64, DimTy::Ix2) => {
            let mut bc = Some(boundary::<f64, ndarray::Ix2>(cfg)?);
            storages1!(cfg, f64, ndarray::Ix2, CubicSpline::new().extrapolate(e).boundary(bc.take().unwrap()))
        }
        (Kind::Spline, Elem::F64, DimTy::Ix3) => {
            let mut bc = Some(boundary::<f64, ndarray::Ix3>(cfg)?);
            storages1!(cfg, f64, ndarray::Ix3, CubicSpline::new().extrapolate(e).boundary(bc.take().unwrap()))
        }
        (Kind::Spline, Elem::F64, DimTy::IxDyn) => {
            let mut bc = Some(boundary::<f64, ndarray::IxDyn>(cfg)?);
            storages1!(cfg, f64, ndarray::IxDyn, CubicSpline::new().extrapolate(e).boundary(bc.take().unwrap()))
        }
        (Kind::Linear, Elem::F64, DimTy::Ix4) => owned1!(cfg, f64, ndarray::Ix4, ndarray_interp::interp1d::Linear::new().extrapolate(e)),
        (Kind::Linear, Elem::F64, DimTy::Ix5) => owned1!(cfg, f64, ndarray::Ix5, ndarray_interp::interp1d::Linear::new().extrapolate(e)),
        (Kind::Spline, Elem::F64, DimTy::Ix4) => {
            let mut bc = Some(boundary::<f64, ndarray::Ix4>(cfg)?);
            owned1!(cfg, f64, ndarray::Ix4, CubicSpline::new().extrapolate(e).boundary(bc.take().unwrap()))
        }
        (Kind::Spline, Elem::F32, DimTy::Ix1) => {
            let mut bc = Some(boundary::<f32, ndarray::Ix1>(cfg)?);
            owned1!(cfg, f32, ndarray::Ix1, CubicSpline::new().extrapolate(e).boundary(bc.take().unwrap()))
        }
        (Kind::Spline, Elem::F32, DimTy::Ix2) => {
            let mut bc = Some(boundary::<f32, ndarray::Ix2>(cfg)?);
            owned1!(cfg, f32, ndarray::Ix2, CubicSpline::new().extrapolate(e).boundary(bc.take().unwrap()))
        }
        (Kind::Linear, Elem::Yf, DimTy::Ix1) => owned1!(cfg, crate::yelem::Yf, ndarray::Ix1, ndarray_interp::interp1d::Linear::new().extrapolate(e)),
        (Kind::Linear, Elem::Yf, DimTy::Ix2) => owned1!(cfg, crate::yelem::Yf, ndarray::Ix2, ndarray_interp::interp1d::Linear::new().extrapolate(e)),
        (Kind::Linear, Elem::Yf, DimTy::IxDyn) => owned1!(cfg, crate::yelem::Yf, ndarray::IxDyn, ndarray_interp::interp1d::Linear::new().extrapolate(e)),
        (Kind::Spline, Elem::Yf, DimTy::Ix1) => {
            let mut bc = Some(boundary::<crate::yelem::Yf, ndarray::Ix1>(cfg)?);
            owned1!(cfg, crate::yelem::Yf, ndarray::Ix1, CubicSpline::new().extrapolate(e).boundary(bc.take().unwrap()))
        }
        (Kind::Spline, Elem::Yf, DimTy::Ix2) => {
            let mut bc = Some(boundary::<crate::yelem::Yf, ndarray::Ix2>(cfg)?);
            owned1!(cfg, crate::yelem::Yf, ndarray::Ix2, CubicSpline::new().extrapolate(e).boundary(bc.take().unwrap()))
        }
        (Kind::Bilinear, Elem::Yf, DimTy::Ix2) => owned2!(cfg, crate::yelem::Yf, ndarray::Ix2, ndarray_interp::interp2d::Bilinear::new().extrapolate(e)),
        (Kind::Bilinear, Elem::Yf, DimTy::Ix3) => owned2!(cfg, crate::yelem::Yf, ndarray::Ix3, ndarray_interp::interp2d::Bilinear::new().extrapolate(e)),
        (Kind::Linear, Elem::I64, DimTy::Ix1) => owned1!(cfg, i64, ndarray::Ix1, ndarray_interp::interp1d::Linear::new().extrapolate(e)),
        (Kind::Linear, Elem::I64, DimTy::Ix2) => owned1!(cfg, i64, ndarray::Ix2, ndarray_interp::interp1d::Linear::new().extrapolate(e)),
        (Kind::Bilinear, Elem::I64, DimTy::Ix2) => owned2!(cfg, i64, ndarray::Ix2, ndarray_interp::interp2d::Bilinear::new().extrapolate(e)),
        (Kind::Probe1, Elem::F64, DimTy::Ix4) => probe1_min_owned!(cfg, ndarray::Ix4),
        (Kind::Probe1, Elem::F64, DimTy::Ix5) => probe1_min_owned!(cfg, ndarray::Ix5),
        (Kind::Bilinear, Elem::F64, DimTy::Ix4) => owned2!(cfg, f64, ndarray::Ix4, ndarray_interp::interp2d::Bilinear::new().extrapolate(e)),
        (Kind::Probe2, Elem::F64, DimTy::Ix4) => probe2_min_owned!(cfg, ndarray::Ix4),
        (Kind::Probe1, Elem::F64, DimTy::Ix1) => probe1_min!(cfg, ndarray::Ix1),
        (Kind::Probe1, Elem::F64, DimTy::Ix2) => probe1_min!(cfg, ndarray::Ix2),
        (Kind::Probe1, Elem::F64, DimTy::Ix3) => probe1_min!(cfg, ndarray::Ix3),
        (Kind::Probe1, Elem::F64, DimTy::IxDyn) => probe1_min!(cfg, ndarray::IxDyn),
        (Kind::Bilinear, Elem::F64, DimTy::Ix2) => storages2!(cfg, f64, ndarray::Ix2, ndarray_interp::interp2d::Bilinear::new().extrapolate(e)),
        (Kind::Bilinear, Elem::F64, DimTy::Ix3) => storages2!(cfg, f64, ndarray::Ix3, ndarray_interp::interp2d::Bilinear::new().extrapolate(e)),
        (Kind::Bilinear, Elem::F64, DimTy::IxDyn) => storages2!(cfg, f64, ndarray::IxDyn, ndarray_interp::interp2d::Bilinear::new().extrapolate(e)),
        (Kind::Bilinear, Elem::F32, DimTy::Ix2) => storages2!(cfg, f32, ndarray::Ix2, ndarray_interp::interp2d::Bilinear::new().extrapolate(e)),
        (Kind::Probe2, Elem::F64, DimTy::Ix2) => probe2_min!(cfg, ndarray::Ix2),
        (Kind::Probe2, Elem::F64, DimTy::Ix3) => probe2_min!(cfg, ndarray::Ix3),
        (Kind::Probe2, Elem::F64, DimTy::IxDyn) => probe2_min!(cfg, ndarray::IxDyn),
        _ => Err(BuildFail::Unsupported(cfg.label())),
    }
}

/// which (kind, elem, storage, dim type, probe minimum) the generator may draw
pub fn supported(kind: Kind, elem: Elem, storage: Storage, dimty: DimTy, _probe_min: usize) -> bool {
    use DimTy::*;
    let owned = storage == Storage::Owned;
    match (kind, elem) {
        (Kind::Linear, Elem::F64) | (Kind::Probe1, Elem::F64) => matches!(dimty, Ix1 | Ix2 | Ix3 | IxDyn) || (owned && matches!(dimty, Ix4 | Ix5)),
        (Kind::Spline, Elem::F64) => matches!(dimty, Ix1 | Ix2 | Ix3 | IxDyn) || (owned && dimty == Ix4),
        (Kind::Spline, Elem::F32) => owned && matches!(dimty, Ix1 | Ix2),
        (Kind::Linear, Elem::F32) => matches!(dimty, Ix1 | Ix2),
        (Kind::Bilinear, Elem::F64) | (Kind::Probe2, Elem::F64) => matches!(dimty, Ix2 | Ix3 | IxDyn) || (owned && dimty == Ix4),
        (Kind::Bilinear, Elem::F32) => matches!(dimty, Ix2),
        (Kind::Linear, Elem::I64) => owned && matches!(dimty, Ix1 | Ix2),
        (Kind::Bilinear, Elem::I64) => owned && dimty == Ix2,
        (Kind::Linear, Elem::Yf) => owned && matches!(dimty, Ix1 | Ix2 | IxDyn),
        (Kind::Spline, Elem::Yf) => owned && matches!(dimty, Ix1 | Ix2),
        (Kind::Bilinear, Elem::Yf) => owned && matches!(dimty, Ix2 | Ix3),
        _ => false,
    }
}

#[allow(unused)]
fn _unused(_: OwnedRepr<f64>, _: ArrayView<'_, f64, Ix1>, _: Linear, _: Bilinear) {}

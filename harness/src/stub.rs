//! The strategy stub: the simulator's side of the library's only outgoing interface.
//!
//! `Probe1<MIN>` / `Probe2<MIN>` implement the builder and the strategy traits. They check the
//! documented guarantees at the moment of every callback, write a value that identifies
//! (query element, lane) into the target, and fail (error token / panic) or yield to the
//! scheduler where the fault plan of the current operation says so.
//!
//! The current operation is published in a thread-local: the library is synchronous, so a
//! callback always runs on the OS thread of the client that issued the call.

use std::cell::RefCell;
use std::sync::Arc;

use ndarray::{ArrayBase, ArrayViewMut, Data, Dimension, Ix1, RemoveAxis};
use ndarray_interp::interp1d::{Interp1D, Interp1DStrategy, Interp1DStrategyBuilder};
use ndarray_interp::interp2d::{Interp2D, Interp2DStrategy, Interp2DStrategyBuilder};
use ndarray_interp::{BuilderError, InterpolateError};

use crate::rng::Fnv;
use crate::types::*;

/// what the client handed to the builder (the stub compares what it receives against this)
#[derive(Debug)]
pub struct Expect {
    pub x: Vec<u64>,
    pub y: Vec<u64>,
    pub shape: Vec<usize>,
    pub data: Vec<u64>,
    pub trailing: Vec<usize>,
    pub min: usize,
    pub plan: BuildPlan,
}

impl Expect {
    pub fn from_cfg(cfg: &SlotCfg) -> Expect {
        Expect {
            x: cfg.axis_x().iter().map(|v| v.to_bits()).collect(),
            y: if cfg.kind.is_2d() { cfg.axis_y().iter().map(|v| v.to_bits()).collect() } else { vec![] },
            shape: cfg.shape.clone(),
            data: cfg.data.iter().map(|f| f.bits()).collect(),
            trailing: cfg.trailing(),
            min: cfg.probe_min,
            plan: cfg.build_plan.clone(),
        }
    }
    fn lanes(&self) -> usize {
        self.trailing.iter().product()
    }
}

#[derive(Default, Debug, Clone)]
pub struct BuildLog {
    pub calls: u32,
    pub violations: Vec<String>,
}

/// context of the operation currently executing on this client thread
pub struct OpCtx {
    /// (x bits, y bits) of every query element of the operation (y = 0 for 1-D)
    pub query: Vec<(u64, u64)>,
    pub plan: Vec<Act>,
    pub yield_mask: u64,
    pub check_acc: bool,
    pub log: StubLog,
    /// query elements already claimed by callbacks on library worker threads
    pub foreign_taken: Vec<bool>,
}

/// re-entrant calls are switched off for this process (the driver's answer to a tree on which a
/// re-entrant call never returns: no listed property promises that it does)
pub static NO_NEST: std::sync::atomic::AtomicBool = std::sync::atomic::AtomicBool::new(false);

/// callbacks that found no operation context on their thread
pub static NOCTX_CALLBACKS: std::sync::atomic::AtomicU64 = std::sync::atomic::AtomicU64::new(0);

/// the value index a callback on a library-internal worker thread writes with (its position in
/// the sequence of callbacks is not reproducible, so it must not enter the values)
pub const FOREIGN_CALL: u32 = u32::MAX;

pub type SharedCtx = Arc<std::sync::Mutex<OpCtx>>;

crate::tls! {
    /// the slot whose operation is executing on this thread (target of re-entrant calls)
    pub static CUR_SLOT: std::cell::Cell<Option<*const (dyn crate::slots::Slot + 'static)>> = const { std::cell::Cell::new(None) };
    pub static OPCTX: RefCell<Option<SharedCtx>> = const { RefCell::new(None) };
    pub static BUILDLOG: RefCell<BuildLog> = RefCell::new(BuildLog::default());
}

/// Attribution of callbacks that arrive on threads the library started itself (a change that
/// evaluates large batches in parallel): under engine A exactly one client thread runs at any time,
/// and the library's workers only run while their parent is inside its call, so such a callback
/// belongs to the operation of the thread that is running right now. The running thread publishes
/// its context here (on starting an operation and whenever it gets the baton back). Engines B and
/// C run clients freely; there the attribution would be a guess and is switched off.
static CURRENT_OP: std::sync::Mutex<Option<SharedCtx>> = std::sync::Mutex::new(None);
pub static FOREIGN_ATTRIB: std::sync::atomic::AtomicBool = std::sync::atomic::AtomicBool::new(false);

fn set_current(c: Option<SharedCtx>) {
    if FOREIGN_ATTRIB.load(std::sync::atomic::Ordering::Relaxed) {
        *CURRENT_OP.lock().unwrap_or_else(|p| p.into_inner()) = c;
    }
}

/// install `ctx` as the context of the operation executing on this thread; returns the previous one
pub fn install_ctx(ctx: Option<OpCtx>) -> Option<SharedCtx> {
    let shared = ctx.map(|c| Arc::new(std::sync::Mutex::new(c)));
    set_current(shared.clone());
    OPCTX.with(|c| c.replace(shared))
}

/// put back a context saved by `install_ctx`; returns the log of the one that was installed
pub fn restore_ctx(prev: Option<SharedCtx>) -> Option<StubLog> {
    set_current(prev.clone());
    let cur = OPCTX.with(|c| c.replace(prev));
    cur.map(|a| std::mem::take(&mut a.lock().unwrap_or_else(|p| p.into_inner()).log))
}

/// called by a client thread when it gets the baton back in the middle of an operation
pub fn republish() {
    if FOREIGN_ATTRIB.load(std::sync::atomic::Ordering::Relaxed) {
        let mine = OPCTX.with(|c| c.borrow().clone());
        set_current(mine);
    }
}

/// run `f` on the context this callback belongs to; the flag says whether the callback arrived on
/// a thread that is not the client's (a worker thread of the library)
fn with_ctx<R>(f: impl FnOnce(&mut OpCtx, bool) -> R) -> Option<R> {
    let mine = OPCTX.with(|c| c.borrow().clone());
    if let Some(a) = mine {
        let mut g = a.lock().unwrap_or_else(|p| p.into_inner());
        return Some(f(&mut g, false));
    }
    if FOREIGN_ATTRIB.load(std::sync::atomic::Ordering::Relaxed) {
        let cur = CURRENT_OP.lock().unwrap_or_else(|p| p.into_inner()).clone();
        if let Some(a) = cur {
            let mut g = a.lock().unwrap_or_else(|p| p.into_inner());
            return Some(f(&mut g, true));
        }
    }
    None
}

pub fn take_build_log() -> BuildLog {
    BUILDLOG.with(|b| std::mem::take(&mut *b.borrow_mut()))
}

/// the value the stub writes for (query element, lane): finite, in [2,4), 52 bits of identity
pub fn enc(xb: u64, yb: u64, lane: usize, call: u32) -> f64 {
    let mut h = Fnv::new();
    h.u64(xb);
    h.u64(yb);
    h.u64(lane as u64);
    // the callback index within the operation: every target the library hands out gets values
    // that no other callback writes, so "which callback filled this result element" is decidable
    // even for repeated query values
    h.u64(call as u64);
    f64::from_bits(0x4000_0000_0000_0000 | (h.0 & 0x000f_ffff_ffff_ffff))
}

fn key(v: f64) -> u64 {
    canon(v.to_bits())
}

pub fn mk_builder_error(variant: u8, token: &str) -> BuilderError {
    match variant % 4 {
        0 => BuilderError::NotEnoughData(token.to_string()),
        1 => BuilderError::Monotonic(token.to_string()),
        2 => BuilderError::ShapeError(token.to_string()),
        _ => BuilderError::ValueError(token.to_string()),
    }
}

fn check_axis(name: &str, got: &[f64], want: &[u64], data_len: Option<usize>, min: usize, v: &mut Vec<String>) {
    for w in got.windows(2) {
        if !(w[0] < w[1]) {
            v.push(format!("build: {name} axis not strictly increasing"));
            break;
        }
    }
    match data_len {
        Some(n) if n == got.len() => {}
        _ => v.push(format!("build: {name} axis length {} != data axis length {:?}", got.len(), data_len)),
    }
    if got.len() < min {
        v.push(format!("build: {name} axis has {} points < declared minimum {min}", got.len()));
    }
    let gb: Vec<u64> = got.iter().map(|g| g.to_bits()).collect();
    if gb != want {
        v.push(format!("build: {name} axis differs from what the client passed"));
    }
}

fn check_data<S: Data<Elem = f64>, D: Dimension>(data: &ArrayBase<S, D>, e: &Expect, v: &mut Vec<String>) {
    if data.shape() != &e.shape[..] {
        v.push(format!("build: data shape {:?} != {:?}", data.shape(), e.shape));
        return;
    }
    let same = data.iter().map(|d| d.to_bits()).eq(e.data.iter().copied());
    if !same {
        v.push("build: data differs from what the client passed".into());
    }
}

enum Decision {
    Go { act: Act, do_yield: bool, check_acc: bool, call: u32 },
    /// callback outside any harness operation: behave as a plain Ok strategy
    NoCtx,
}

/// bookkeeping common to the 1-D and 2-D callback: membership of the query, target shape, plan
fn on_callback(e: &Expect, target_shape: &[usize], xb: u64, yb: u64) -> Decision {
    let r = with_ctx(|ctx, foreign| {
        ctx.log.calls += 1;
        if ctx.log.seen.len() < 1024 {
            ctx.log.seen.push((xb, yb));
        }
        if target_shape != &e.trailing[..] {
            ctx.log.violations.push(format!("interp_into: target shape {:?} != data shape minus interpolated axes {:?}", target_shape, e.trailing));
        }
        let mut hit = false;
        let mut first_free = None;
        let mut first_any = None;
        for (i, &(qx, qy)) in ctx.query.iter().enumerate() {
            if qx == xb && qy == yb {
                hit = true;
                if i < 64 {
                    ctx.log.received |= 1u64 << i;
                }
                first_any.get_or_insert(i);
                if foreign && first_free.is_none() && !ctx.foreign_taken.get(i).copied().unwrap_or(false) {
                    first_free = Some(i);
                }
            }
        }
        if !hit {
            ctx.log.violations.push(format!("interp_into: received ({xb:#018x},{yb:#018x}) which is not an element (pair) of the query"));
        }
        // which entry of the fault plan applies: the position in the sequence of callbacks - or,
        // for a callback on a worker thread of the library (no reproducible sequence), the index
        // of the query element it serves
        let (k, call) = if foreign {
            ctx.log.foreign_attributed += 1;
            let i = first_free.or(first_any).unwrap_or(usize::MAX);
            if let Some(t) = ctx.foreign_taken.get_mut(i) {
                *t = true;
            }
            if i < 64 {
                ctx.log.received_foreign |= 1u64 << i;
            }
            (i, FOREIGN_CALL)
        } else {
            let k = ctx.log.own_calls as usize;
            ctx.log.own_calls += 1;
            (k, k as u32)
        };
        let act = ctx.plan.get(k).cloned().unwrap_or(Act::Ok);
        let do_yield = !foreign && (ctx.yield_mask >> (k % 64)) & 1 == 1;
        Decision::Go { act, do_yield, check_acc: ctx.check_acc, call }
    });
    match r {
        Some(d) => d,
        None => {
            NOCTX_CALLBACKS.fetch_add(1, std::sync::atomic::Ordering::Relaxed);
            Decision::NoCtx
        }
    }
}

fn note_violation(s: String) {
    with_ctx(|ctx, _| {
        if ctx.log.violations.len() < 8 {
            ctx.log.violations.push(s);
        }
    });
}

fn finish_callback(act: Act) -> Result<(), InterpolateError> {
    match act {
        Act::Ok | Act::Nest { .. } => Ok(()),
        Act::Err(tok) => {
            with_ctx(|ctx, _| ctx.log.tokens.push(tok.clone()));
            Err(InterpolateError::OutOfBounds(tok))
        }
        Act::Panic => {
            with_ctx(|ctx, _| ctx.log.panicked = true);
            panic!("stub-strategy-panic");
        }
    }
}

/// re-entrancy: issue `call` on the interpolator whose callback is running, with a context of its
/// own, and record the outcome in the log of the outer operation
fn do_nest(at: u32, call: &Call, plan: &[Act]) {
    if NO_NEST.load(std::sync::atomic::Ordering::Relaxed) {
        return;
    }
    let Some(slot) = CUR_SLOT.with(|c| c.get()) else { return };
    // only from a callback running on the client's own thread
    let Some(outer) = OPCTX.with(|c| c.borrow().clone()) else { return };
    let (mask, acc) = {
        let g = outer.lock().unwrap_or_else(|p| p.into_inner());
        (g.yield_mask.rotate_right(17), g.check_acc)
    };
    let q = crate::slots::query_of(call);
    let n = q.len();
    let prev = install_ctx(Some(OpCtx { query: q, plan: plan.to_vec(), yield_mask: mask, check_acc: acc, log: StubLog::default(), foreign_taken: vec![false; n] }));
    // Safety: see `slots::exec` - the slot outlives the operation whose callback we are in.
    // `Slot::call` catches unwinds itself.
    let mut out = unsafe { (*slot).call(call) };
    if let Some(log) = restore_ctx(prev) {
        out.stub = log;
    }
    let mut g = outer.lock().unwrap_or_else(|p| p.into_inner());
    if g.log.nested.len() < 16 {
        g.log.nested.push(Nested { at, call: call.clone(), plan: plan.to_vec(), out });
    }
}

fn range_probes(axis: &[u64]) -> Vec<f64> {
    let lo = f64::from_bits(axis[0]);
    let hi = f64::from_bits(axis[axis.len() - 1]);
    vec![lo, hi, next_down(lo), next_up(lo), next_down(hi), next_up(hi), f64::NAN, f64::INFINITY, f64::NEG_INFINITY, 0.5 * lo + 0.5 * hi]
}

fn closed(axis: &[u64], v: f64) -> bool {
    let lo = f64::from_bits(axis[0]);
    let hi = f64::from_bits(axis[axis.len() - 1]);
    lo <= v && v <= hi
}

// ---------------------------------------------------------------------------------------------
// 1-D
// ---------------------------------------------------------------------------------------------

pub struct Probe1<const MIN: usize> {
    pub e: Arc<Expect>,
}
pub struct Probe1Built<const MIN: usize> {
    pub e: Arc<Expect>,
}

impl<Sd, Sx, D, const MIN: usize> Interp1DStrategyBuilder<Sd, Sx, D> for Probe1<MIN>
where
    Sd: Data<Elem = f64>,
    Sx: Data<Elem = f64>,
    D: Dimension + RemoveAxis,
{
    const MINIMUM_DATA_LENGHT: usize = MIN;
    type FinishedStrat = Probe1Built<MIN>;

    fn build<Sx2>(self, x: &ArrayBase<Sx2, Ix1>, data: &ArrayBase<Sd, D>) -> Result<Self::FinishedStrat, BuilderError>
    where
        Sx2: Data<Elem = f64>,
    {
        let mut v = vec![];
        let xs: Vec<f64> = x.iter().copied().collect();
        check_axis("x", &xs, &self.e.x, data.shape().first().copied(), MIN, &mut v);
        check_data(data, &self.e, &mut v);
        BUILDLOG.with(|b| {
            let mut b = b.borrow_mut();
            b.calls += 1;
            b.violations.extend(v);
        });
        match &self.e.plan {
            BuildPlan::Ok => Ok(Probe1Built { e: self.e }),
            BuildPlan::Fail { variant, token } => Err(mk_builder_error(*variant, token)),
        }
    }
}

impl<Sd, Sx, D, const MIN: usize> Interp1DStrategy<Sd, Sx, D> for Probe1Built<MIN>
where
    Sd: Data<Elem = f64>,
    Sx: Data<Elem = f64>,
    D: Dimension + RemoveAxis,
{
    fn interp_into(&self, it: &Interp1D<Sd, Sx, D, Self>, mut target: ArrayViewMut<'_, f64, D::Smaller>, x: f64) -> Result<(), InterpolateError> {
        let e = &*self.e;
        let xb = key(x);
        let (act, do_yield, check_acc, call) = match on_callback(e, target.shape(), xb, 0) {
            Decision::Go { act, do_yield, check_acc, call } => (act, do_yield, check_acc, call),
            Decision::NoCtx => (Act::Ok, false, false, 0),
        };
        if check_acc {
            let lanes = e.lanes();
            for i in 0..e.x.len() {
                let (xi, view) = it.index_point(i);
                if xi.to_bits() != e.x[i] {
                    note_violation(format!("index_point({i}).0 != axis[{i}]"));
                }
                let ok = view.shape() == &e.trailing[..]
                    && view.iter().map(|d| d.to_bits()).eq(e.data[i * lanes..(i + 1) * lanes].iter().copied());
                if !ok {
                    note_violation(format!("index_point({i}).1 != data[{i}]"));
                }
            }
            // a user strategy may look the segment up as well (the result is C11's business, not
            // checked here; the call is part of what a strategy legitimately does)
            if !x.is_nan() {
                let _ = it.get_index_left_of(x);
            }
            let mut probes = range_probes(&e.x);
            probes.push(x);
            for p in probes {
                if it.is_in_range(p) != closed(&e.x, p) {
                    note_violation(format!("is_in_range({p:?}) is not the closed-range test"));
                }
            }
        }
        if do_yield {
            if crate::sched::yield_now(crate::sched::SITE_CALLBACK) {
                with_ctx(|ctx, _| ctx.log.yields += 1);
            }
        }
        // a failing strategy has typically written part of its target already (lane-by-lane
        // evaluation that meets a gap): on a planned error or panic the first half of the lanes is
        // written before failing
        let n_write = if matches!(act, Act::Ok | Act::Nest { .. }) { usize::MAX } else { (target.len() + 1) / 2 };
        if let (Act::Nest { call: nc, write_first: false, plan: np }, true) = (&act, call != FOREIGN_CALL) {
            do_nest(call, nc, np);
        }
        for (lane, t) in target.iter_mut().enumerate().take(n_write) {
            *t = enc(xb, 0, lane, call);
        }
        if let (Act::Nest { call: nc, write_first: true, plan: np }, true) = (&act, call != FOREIGN_CALL) {
            do_nest(call, nc, np);
        }
        finish_callback(act)
    }
}

// ---------------------------------------------------------------------------------------------
// 2-D
// ---------------------------------------------------------------------------------------------

pub struct Probe2<const MIN: usize> {
    pub e: Arc<Expect>,
}
pub struct Probe2Built<const MIN: usize> {
    pub e: Arc<Expect>,
}

impl<Sd, Sx, Sy, D, const MIN: usize> Interp2DStrategyBuilder<Sd, Sx, Sy, D> for Probe2<MIN>
where
    Sd: Data<Elem = f64>,
    Sx: Data<Elem = f64>,
    Sy: Data<Elem = f64>,
    D: Dimension + RemoveAxis,
    D::Smaller: RemoveAxis,
{
    const MINIMUM_DATA_LENGHT: usize = MIN;
    type FinishedStrat = Probe2Built<MIN>;

    fn build(self, x: &ArrayBase<Sx, Ix1>, y: &ArrayBase<Sy, Ix1>, data: &ArrayBase<Sd, D>) -> Result<Self::FinishedStrat, BuilderError> {
        let mut v = vec![];
        let xs: Vec<f64> = x.iter().copied().collect();
        let ys: Vec<f64> = y.iter().copied().collect();
        check_axis("x", &xs, &self.e.x, data.shape().first().copied(), MIN, &mut v);
        check_axis("y", &ys, &self.e.y, data.shape().get(1).copied(), MIN, &mut v);
        check_data(data, &self.e, &mut v);
        BUILDLOG.with(|b| {
            let mut b = b.borrow_mut();
            b.calls += 1;
            b.violations.extend(v);
        });
        match &self.e.plan {
            BuildPlan::Ok => Ok(Probe2Built { e: self.e }),
            BuildPlan::Fail { variant, token } => Err(mk_builder_error(*variant, token)),
        }
    }
}

impl<Sd, Sx, Sy, D, const MIN: usize> Interp2DStrategy<Sd, Sx, Sy, D> for Probe2Built<MIN>
where
    Sd: Data<Elem = f64>,
    Sx: Data<Elem = f64>,
    Sy: Data<Elem = f64>,
    D: Dimension + RemoveAxis,
    D::Smaller: RemoveAxis,
{
    fn interp_into(
        &self,
        it: &Interp2D<Sd, Sx, Sy, D, Self>,
        mut target: ArrayViewMut<'_, f64, <D::Smaller as Dimension>::Smaller>,
        x: f64,
        y: f64,
    ) -> Result<(), InterpolateError> {
        let e = &*self.e;
        let xb = key(x);
        let yb = key(y);
        let (act, do_yield, check_acc, call) = match on_callback(e, target.shape(), xb, yb) {
            Decision::Go { act, do_yield, check_acc, call } => (act, do_yield, check_acc, call),
            Decision::NoCtx => (Act::Ok, false, false, 0),
        };
        if check_acc {
            let lanes = e.lanes();
            let ny = e.y.len();
            for i in 0..e.x.len() {
                for j in 0..ny {
                    let (xi, yj, view) = it.index_point(i, j);
                    if xi.to_bits() != e.x[i] || yj.to_bits() != e.y[j] {
                        note_violation(format!("index_point({i},{j}) axis values differ"));
                    }
                    let off = (i * ny + j) * lanes;
                    let ok = view.shape() == &e.trailing[..] && view.iter().map(|d| d.to_bits()).eq(e.data[off..off + lanes].iter().copied());
                    if !ok {
                        note_violation(format!("index_point({i},{j}).2 != data[{i},{j}]"));
                    }
                }
            }
            if !x.is_nan() && !y.is_nan() {
                let _ = it.get_index_left_of(x, y);
            }
            let mut px = range_probes(&e.x);
            px.push(x);
            for p in px {
                if it.is_in_x_range(p) != closed(&e.x, p) {
                    note_violation(format!("is_in_x_range({p:?}) is not the closed-range test"));
                }
            }
            let mut py = range_probes(&e.y);
            py.push(y);
            for p in py {
                if it.is_in_y_range(p) != closed(&e.y, p) {
                    note_violation(format!("is_in_y_range({p:?}) is not the closed-range test"));
                }
            }
        }
        if do_yield {
            if crate::sched::yield_now(crate::sched::SITE_CALLBACK) {
                with_ctx(|ctx, _| ctx.log.yields += 1);
            }
        }
        let n_write = if matches!(act, Act::Ok | Act::Nest { .. }) { usize::MAX } else { (target.len() + 1) / 2 };
        if let (Act::Nest { call: nc, write_first: false, plan: np }, true) = (&act, call != FOREIGN_CALL) {
            do_nest(call, nc, np);
        }
        for (lane, t) in target.iter_mut().enumerate().take(n_write) {
            *t = enc(xb, yb, lane, call);
        }
        if let (Act::Nest { call: nc, write_first: true, plan: np }, true) = (&act, call != FOREIGN_CALL) {
            do_nest(call, nc, np);
        }
        finish_callback(act)
    }
}

// ---------------------------------------------------------------------------------------------
// build-only probe, generic over the element type (builder decision table for element types
// other than f64: what does a user strategy's `build` receive?)
// ---------------------------------------------------------------------------------------------

pub struct AxisProbe<const MIN: usize>;
pub struct AxisProbeBuilt;

fn axis_probe_check<T: PartialOrd + Copy>(name: &str, axis: &[T], data_len: Option<usize>, min: usize) {
    let mut v = vec![];
    if axis.windows(2).any(|w| !(w[0] < w[1])) {
        v.push(format!("build: {name} axis not strictly increasing"));
    }
    if data_len != Some(axis.len()) {
        v.push(format!("build: {name} axis length {} != data axis length {:?}", axis.len(), data_len));
    }
    if axis.len() < min {
        v.push(format!("build: {name} axis has {} points < declared minimum {min}", axis.len()));
    }
    BUILDLOG.with(|b| {
        let mut b = b.borrow_mut();
        b.violations.extend(v);
    });
}

impl<Sd, Sx, D, const MIN: usize> Interp1DStrategyBuilder<Sd, Sx, D> for AxisProbe<MIN>
where
    Sd: Data,
    Sd::Elem: num_traits::Num + PartialOrd + num_traits::NumCast + Copy + std::fmt::Debug + std::ops::Sub<Output = Sd::Elem> + Send,
    Sx: Data<Elem = Sd::Elem>,
    D: Dimension + RemoveAxis,
{
    const MINIMUM_DATA_LENGHT: usize = MIN;
    type FinishedStrat = AxisProbeBuilt;
    fn build<Sx2>(self, x: &ArrayBase<Sx2, Ix1>, data: &ArrayBase<Sd, D>) -> Result<AxisProbeBuilt, BuilderError>
    where
        Sx2: Data<Elem = Sd::Elem>,
    {
        BUILDLOG.with(|b| b.borrow_mut().calls += 1);
        let xs: Vec<Sd::Elem> = x.iter().copied().collect();
        axis_probe_check("x", &xs, data.shape().first().copied(), MIN);
        Ok(AxisProbeBuilt)
    }
}

impl<Sd, Sx, D> Interp1DStrategy<Sd, Sx, D> for AxisProbeBuilt
where
    Sd: Data,
    Sd::Elem: num_traits::Num + PartialOrd + num_traits::NumCast + Copy + std::fmt::Debug + std::ops::Sub<Output = Sd::Elem> + Send,
    Sx: Data<Elem = Sd::Elem>,
    D: Dimension + RemoveAxis,
{
    fn interp_into(&self, _: &Interp1D<Sd, Sx, D, Self>, _: ArrayViewMut<'_, Sd::Elem, D::Smaller>, _: Sd::Elem) -> Result<(), InterpolateError> {
        Ok(())
    }
}

impl<Sd, Sx, Sy, D, const MIN: usize> Interp2DStrategyBuilder<Sd, Sx, Sy, D> for AxisProbe<MIN>
where
    Sd: Data,
    Sd::Elem: num_traits::Num + PartialOrd + num_traits::NumCast + Copy + std::fmt::Debug + std::ops::Sub<Output = Sd::Elem> + Send,
    Sx: Data<Elem = Sd::Elem>,
    Sy: Data<Elem = Sd::Elem>,
    D: Dimension + RemoveAxis,
    D::Smaller: RemoveAxis,
{
    const MINIMUM_DATA_LENGHT: usize = MIN;
    type FinishedStrat = AxisProbeBuilt;
    fn build(self, x: &ArrayBase<Sx, Ix1>, y: &ArrayBase<Sy, Ix1>, data: &ArrayBase<Sd, D>) -> Result<AxisProbeBuilt, BuilderError> {
        BUILDLOG.with(|b| b.borrow_mut().calls += 1);
        let xs: Vec<Sd::Elem> = x.iter().copied().collect();
        let ys: Vec<Sd::Elem> = y.iter().copied().collect();
        axis_probe_check("x", &xs, data.shape().first().copied(), MIN);
        axis_probe_check("y", &ys, data.shape().get(1).copied(), MIN);
        Ok(AxisProbeBuilt)
    }
}

impl<Sd, Sx, Sy, D> Interp2DStrategy<Sd, Sx, Sy, D> for AxisProbeBuilt
where
    Sd: Data,
    Sd::Elem: num_traits::Num + PartialOrd + num_traits::NumCast + Copy + std::fmt::Debug + std::ops::Sub<Output = Sd::Elem> + Send,
    Sx: Data<Elem = Sd::Elem>,
    Sy: Data<Elem = Sd::Elem>,
    D: Dimension + RemoveAxis,
    D::Smaller: RemoveAxis,
{
    fn interp_into(&self, _: &Interp2D<Sd, Sx, Sy, D, Self>, _: ArrayViewMut<'_, Sd::Elem, <D::Smaller as Dimension>::Smaller>, _: Sd::Elem, _: Sd::Elem) -> Result<(), InterpolateError> {
        Ok(())
    }
}

/// Builder cases over element types whose `usize` conversion is inexact or that are not f64:
/// default axes and explicit axes, 1-D and 2-D. Returns (label, violation) of the first case in
/// which the strategy's `build` was invoked with inputs that are not valid.
pub fn element_type_build_cases() -> (u64, Option<(String, String)>) {
    use crate::lpelem::Lp;
    use ndarray::{Array1, Array2};
    use ndarray_interp::interp1d::Interp1DBuilder;
    use ndarray_interp::interp2d::Interp2DBuilder;
    let mut n_cases = 0u64;
    let mut run = |label: String, f: &mut dyn FnMut()| -> Option<(String, String)> {
        let _ = take_build_log();
        let _ = std::panic::catch_unwind(std::panic::AssertUnwindSafe(|| f()));
        let log = take_build_log();
        log.violations.first().map(|v| (label, v.clone()))
    };
    // low-precision element type: default axes beyond 257 points contain ties
    for n in [200usize, 257, 258, 300, 513, 700] {
        n_cases += 3;
        let r = run(format!("Lp data, {n} points, default axis (1-D)"), &mut || {
            let data = Array1::from_iter((0..n).map(|i| Lp((i % 7) as f64)));
            let _ = Interp1DBuilder::new(data).strategy(AxisProbe::<2>).build();
        });
        if r.is_some() {
            return (n_cases, r);
        }
        let r = run(format!("Lp data, {n} x 3 points, default axes (2-D, long x)"), &mut || {
            let data = Array2::from_shape_fn((n, 3), |(i, j)| Lp(((i + j) % 5) as f64));
            let _ = Interp2DBuilder::new(data).strategy(AxisProbe::<2>).build();
        });
        if r.is_some() {
            return (n_cases, r);
        }
        let r = run(format!("Lp data, 3 x {n} points, default axes (2-D, long y)"), &mut || {
            let data = Array2::from_shape_fn((3, n), |(i, j)| Lp(((i + j) % 5) as f64));
            let _ = Interp2DBuilder::new(data).strategy(AxisProbe::<2>).build();
        });
        if r.is_some() {
            return (n_cases, r);
        }
    }
    // f32 and integer axes given explicitly: ties / dips next to the limits of the type
    n_cases += 4;
    let r = run("f32 explicit axis with two values that differ only in f64".into(), &mut || {
        let x = Array1::from_vec(vec![0.0f32, 1.0, 16777216.0, 16777217.0f64 as f32, 2e8]);
        let data = Array1::from_vec(vec![0.0f32; 5]);
        let _ = Interp1DBuilder::new(data).x(x).strategy(AxisProbe::<2>).build();
    });
    if r.is_some() {
        return (n_cases, r);
    }
    let r = run("i64 explicit axis with neighbours beyond 2^53".into(), &mut || {
        let b = 1i64 << 53;
        let x = Array1::from_vec(vec![0, b, b + 1, b + 1, b + 3]);
        let data = Array1::from_vec(vec![0i64; 5]);
        let _ = Interp1DBuilder::new(data).x(x).strategy(AxisProbe::<2>).build();
    });
    if r.is_some() {
        return (n_cases, r);
    }
    let r = run("i64 explicit axis, strictly increasing beyond 2^53 (valid)".into(), &mut || {
        let b = 1i64 << 53;
        let x = Array1::from_vec(vec![0, b, b + 1, b + 2, b + 3]);
        let data = Array1::from_vec(vec![0i64; 5]);
        let _ = Interp1DBuilder::new(data).x(x).strategy(AxisProbe::<2>).build();
    });
    if r.is_some() {
        return (n_cases, r);
    }
    let r = run("i32 data below the declared minimum".into(), &mut || {
        let data = Array2::from_shape_fn((2, 4), |(i, j)| (i + j) as i32);
        let _ = Interp1DBuilder::new(data).strategy(AxisProbe::<3>).build();
    });
    (n_cases, r)
}

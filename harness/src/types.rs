//! Plain data describing a simulated run: slot configurations, operations, fault plans,
//! schedules and outcomes. Everything here is serialisable so that a run can be written out as
//! a replay file and re-executed without any PRNG.

use crate::rng::Fnv;
use serde::{Deserialize, Deserializer, Serialize, Serializer};

/// an f64 carried by its bit pattern ("0x..."), compared bitwise
#[derive(Clone, Copy, Debug)]
pub struct Fb(pub f64);

impl Fb {
    pub fn bits(self) -> u64 {
        self.0.to_bits()
    }
}
impl PartialEq for Fb {
    fn eq(&self, o: &Fb) -> bool {
        self.bits() == o.bits()
    }
}
impl Eq for Fb {}
impl Serialize for Fb {
    fn serialize<S: Serializer>(&self, s: S) -> Result<S::Ok, S::Error> {
        s.serialize_str(&format!("0x{:016x}", self.bits()))
    }
}
impl<'de> Deserialize<'de> for Fb {
    fn deserialize<D: Deserializer<'de>>(d: D) -> Result<Fb, D::Error> {
        let s = String::deserialize(d)?;
        let t = s.trim_start_matches("0x");
        u64::from_str_radix(t, 16)
            .map(|b| Fb(f64::from_bits(b)))
            .map_err(serde::de::Error::custom)
    }
}

#[derive(Serialize, Deserialize, Clone, Copy, Debug, PartialEq, Eq, PartialOrd, Ord)]
pub enum Kind {
    Linear,
    Spline,
    Probe1,
    Bilinear,
    Probe2,
}
impl Kind {
    pub fn is_2d(self) -> bool {
        matches!(self, Kind::Bilinear | Kind::Probe2)
    }
    pub fn is_probe(self) -> bool {
        matches!(self, Kind::Probe1 | Kind::Probe2)
    }
}

#[derive(Serialize, Deserialize, Clone, Copy, Debug, PartialEq, Eq, PartialOrd, Ord)]
pub enum Elem {
    F64,
    F32,
    /// `yelem::Yf`: an f64 newtype whose operators are yield points (the numeric-type seam)
    Yf,
    /// integer data, axes and queries (the crate is generic over `Num`; its tests use `i32`)
    I64,
}

#[derive(Serialize, Deserialize, Clone, Copy, Debug, PartialEq, Eq, PartialOrd, Ord)]
pub enum Storage {
    /// owned data, owned axes
    Owned,
    /// views of arrays that outlive the interpolator
    View,
    /// `ArcArray` data and axes (copy-on-write, other owners exist)
    Shared,
    /// data view, owned axes
    DataView,
}

#[derive(Serialize, Deserialize, Clone, Copy, Debug, PartialEq, Eq, PartialOrd, Ord)]
pub enum DimTy {
    Ix1,
    Ix2,
    Ix3,
    /// static ranks 4 and 5: owned storage only (keeps the instantiation matrix affordable);
    /// with rank-3 queries the output rank reaches 6 and 7 (= dynamic)
    Ix4,
    Ix5,
    IxDyn,
}

#[derive(Serialize, Deserialize, Clone, Debug, PartialEq)]
pub enum SingleB {
    NotAKnot,
    Natural,
    Clamped,
    First(Fb),
    Second(Fb),
}

#[derive(Serialize, Deserialize, Clone, Debug, PartialEq)]
pub enum RowB {
    NotAKnot,
    Natural,
    Clamped,
    Mixed(SingleB, SingleB),
}

#[derive(Serialize, Deserialize, Clone, Debug, PartialEq)]
pub enum Bc {
    NotAKnot,
    Natural,
    Clamped,
    Periodic,
    Individual(Vec<RowB>),
}

#[derive(Serialize, Deserialize, Clone, Debug, PartialEq)]
pub enum BuildPlan {
    Ok,
    /// the stub's `build` returns BuilderError variant `variant` (0..4) carrying `token`
    Fail { variant: u8, token: String },
}

#[derive(Serialize, Deserialize, Clone, Debug, PartialEq)]
pub struct SlotCfg {
    pub kind: Kind,
    pub elem: Elem,
    pub storage: Storage,
    pub dimty: DimTy,
    /// full data shape (interpolated axes first)
    pub shape: Vec<usize>,
    /// explicit x axis; None = the builder's default index axis
    pub x: Option<Vec<Fb>>,
    pub y: Option<Vec<Fb>>,
    /// data in row-major order
    pub data: Vec<Fb>,
    pub extrapolate: bool,
    pub bc: Bc,
    /// declared minimum number of points of a probe strategy
    pub probe_min: usize,
    pub build_plan: BuildPlan,
    /// memory layout of the data array handed to the builder (owned/shared: C or F; views: any)
    #[serde(default = "lay_c")]
    pub data_lay: Lay,
    /// memory layout of the axis views handed to the builder (view storage only)
    #[serde(default = "lay_c")]
    pub x_lay: Lay,
    /// order in which the builder's setters are called: 0 = axes then strategy, 1 = strategy
    /// first, 2 = an (invalid) decoy x axis is set first and then replaced, 3 (2-D) = y before x
    #[serde(default)]
    pub build_order: u8,
}

impl SlotCfg {
    /// the axis values the interpolator is expected to hold
    pub fn axis_x(&self) -> Vec<f64> {
        match &self.x {
            Some(v) => v.iter().map(|f| f.0).collect(),
            None => (0..self.shape.first().copied().unwrap_or(0)).map(|i| i as f64).collect(),
        }
    }
    pub fn axis_y(&self) -> Vec<f64> {
        match &self.y {
            Some(v) => v.iter().map(|f| f.0).collect(),
            None => (0..self.shape.get(1).copied().unwrap_or(0)).map(|i| i as f64).collect(),
        }
    }
    /// shape of the data with the interpolated axes removed
    pub fn trailing(&self) -> Vec<usize> {
        let k = if self.kind.is_2d() { 2 } else { 1 };
        if self.shape.len() >= k {
            self.shape[k..].to_vec()
        } else {
            vec![]
        }
    }
    pub fn label(&self) -> String {
        format!(
            "{:?}/{:?}/{:?}/{:?}/{}{}",
            self.kind,
            self.elem,
            self.storage,
            self.dimty,
            match &self.bc {
                Bc::Individual(_) => "Individual".to_string(),
                b if self.kind == Kind::Spline => format!("{:?}", b),
                _ => "-".to_string(),
            },
            format!(
                "{}{}",
                if self.extrapolate { "/extrap" } else { "" },
                if self.data_lay != Lay::C || self.x_lay != Lay::C { format!("/in:{:?},{:?}", self.data_lay, self.x_lay) } else { String::new() }
            )
        )
    }
}

#[derive(Serialize, Deserialize, Clone, Copy, Debug, PartialEq, Eq, PartialOrd, Ord)]
pub enum QTy {
    Q0,
    Q1,
    Q2,
    Q3,
    QDyn,
}

#[derive(Serialize, Deserialize, Clone, Copy, Debug, PartialEq, Eq, PartialOrd, Ord)]
pub enum Lay {
    /// standard (row-major, contiguous) layout; poison rows before and after along axis 0 only
    C,
    /// row-major order, but a window inside a larger allocation (padded in every axis): strided
    Window,
    /// column-major
    F,
    /// every second element of a larger allocation, in every axis
    Step2,
    /// reversed (negative strides)
    Rev,
    /// every 9th element of a larger allocation, in every axis (a column of a wide table: the
    /// stride exceeds a cache line); `WideRev`: the same, reversed
    Wide,
    WideRev,
    /// general case: `perm` = memory order of the axes (number of the permutation of the n axes
    /// in lexicographic order, taken modulo n!), `rev` / `step` = bit a set: logical axis a is
    /// reversed / takes every second element; a window inside a larger poison-filled allocation.
    /// Covers what the other variants cannot: trailing axes permuted among themselves, only some
    /// axes reversed or stepped.
    Mix { perm: u16, rev: u8, step: u8 },
}

/// the k-th permutation of 0..n in lexicographic order (k taken modulo n!)
pub fn nth_perm(n: usize, k: usize) -> Vec<usize> {
    let mut fact = vec![1usize; n + 1];
    for i in 1..=n {
        fact[i] = fact[i - 1] * i;
    }
    let mut k = if n == 0 { 0 } else { k % fact[n] };
    let mut pool: Vec<usize> = (0..n).collect();
    let mut out = vec![];
    for i in (0..n).rev() {
        let j = k / fact[i];
        k %= fact[i];
        out.push(pool.remove(j));
    }
    out
}

#[derive(Serialize, Deserialize, Clone, Debug, PartialEq)]
pub struct QSpec {
    pub ty: QTy,
    pub shape: Vec<usize>,
    pub xs: Vec<Fb>,
    /// second coordinate for 2-D interpolators (empty for 1-D)
    pub ys: Vec<Fb>,
    /// if Some: `ys` is given this (different) shape -> documented panic
    pub ys_shape: Option<Vec<usize>>,
    pub lay: Lay,
    /// memory layout of `ys`, independent of the layout of `xs`
    #[serde(default = "lay_c")]
    pub ys_lay: Lay,
}

fn lay_c() -> Lay {
    Lay::C
}

#[derive(Serialize, Deserialize, Clone, Debug, PartialEq)]
pub struct BufSpec {
    /// shape of the window handed to the library
    pub shape: Vec<usize>,
    pub lay: Lay,
    /// the generator's claim that this is an exactly shaped buffer
    pub exact: bool,
}

#[derive(Serialize, Deserialize, Clone, Debug, PartialEq)]
pub enum Call {
    Scalar { x: Fb, y: Fb },
    Interp { x: Fb, y: Fb },
    InterpInto { x: Fb, y: Fb, buf: BufSpec },
    Array { q: QSpec },
    ArrayInto { q: QSpec, buf: BufSpec },
    IndexPoint { i: usize, j: usize },
    IndexLeftOf { x: Fb, y: Fb },
    InRange { x: Fb, y: Fb },
    /// a co-owner of the shared storage mutates its handle (copy-on-write) and drops it
    Cow,
    /// somebody builds ANOTHER interpolator over the same storage (another handle of the shared
    /// array / another view of the viewed array), queries it once at (x, y) and drops it
    Sibling { strat: SibStrat, x: Fb, y: Fb },
    /// thread affinity (engine A): the executing client thread builds a PRIVATE interpolator of
    /// this operation's slot configuration and keeps it
    PrivBuild,
    /// `inner` on the client's most recent private interpolator of this operation's slot
    /// configuration (skipped if it has none); must answer like a fresh instance
    PrivQuery { inner: Box<Call> },
    /// the client's most recent private interpolator goes into the run's mailbox ...
    PrivSend,
    /// volume: `inner` is issued `times` times in a row; the outcome is the first one that differs
    /// from the first outcome, else the last one (counters that wrap, thresholds, tables that fill up)
    Repeat { inner: Box<Call>, times: u32 },
    /// ... and whoever executes this takes the oldest one out and drops it - on a thread that did
    /// not build it, while interpolators that thread built itself are alive
    PrivReap,
}

#[derive(Serialize, Deserialize, Clone, Debug, PartialEq)]
pub enum SibStrat {
    Linear { extrapolate: bool },
    /// bc: NotAKnot | Natural | Clamped | Periodic
    Spline { bc: Bc, extrapolate: bool },
    Bilinear { extrapolate: bool },
}

impl Call {
    pub fn name(&self) -> &'static str {
        match self {
            Call::Scalar { .. } => "interp_scalar",
            Call::Interp { .. } => "interp",
            Call::InterpInto { .. } => "interp_into",
            Call::Array { .. } => "interp_array",
            Call::ArrayInto { .. } => "interp_array_into",
            Call::IndexPoint { .. } => "index_point",
            Call::IndexLeftOf { .. } => "get_index_left_of",
            Call::InRange { .. } => "is_in_range",
            Call::Cow => "cow",
            Call::Sibling { .. } => "sibling_build",
            Call::PrivBuild => "private_build",
            Call::PrivQuery { .. } => "private_query",
            Call::PrivSend => "private_send",
            Call::PrivReap => "private_reap",
            Call::Repeat { .. } => "repeat",
        }
    }
    /// number of query elements (= strategy callbacks if nothing fails)
    pub fn batch_len(&self) -> usize {
        match self {
            Call::Scalar { .. } | Call::Interp { .. } | Call::InterpInto { .. } => 1,
            Call::Array { q } | Call::ArrayInto { q, .. } => q.xs.len(),
            Call::PrivQuery { inner } | Call::Repeat { inner, .. } => inner.batch_len(),
            _ => 0,
        }
    }
}

/// what the stub strategy does at one callback
#[derive(Serialize, Deserialize, Clone, Debug, PartialEq)]
pub enum Act {
    Ok,
    Err(String),
    Panic,
    /// re-entrancy: before it returns `Ok`, the callback issues `call` on the very interpolator it
    /// was handed (a user strategy may do that: every query method takes `&self`); `write_first` =
    /// the callback fills its own target before the nested call (a target that is really a shared
    /// scratch row is then clobbered by the nested call), otherwise afterwards
    Nest {
        call: Box<Call>,
        write_first: bool,
        /// fault plan of the NESTED call's own callbacks (errors / panics; no further nesting): a
        /// nested call that fails must not change what the outer call returns
        #[serde(default, skip_serializing_if = "Vec::is_empty")]
        plan: Vec<Act>,
    },
}

#[derive(Serialize, Deserialize, Clone, Debug, PartialEq)]
pub struct Op {
    pub slot: usize,
    pub call: Call,
    /// stub fault plan by callback index (missing entries = Ok); ignored by built-in strategies
    #[serde(default, skip_serializing_if = "Vec::is_empty")]
    pub plan: Vec<Act>,
    /// buggify: bit k set = the stub yields to the scheduler on entry to callback k (mod 64)
    #[serde(default)]
    pub yield_mask: u64,
    /// the stub checks the accessors (index_point, is_in_range) inside its callbacks
    #[serde(default)]
    pub check_acc: bool,
    /// element-operation fault (slots over the yielding element type `Yf` only): the n-th element
    /// operation (arithmetic / comparison / conversion) executed by this call panics, as checked
    /// arithmetic of a user-defined numeric type would; 0 = none. The outcome of such a call is
    /// itself not compared (a correct cache may legitimately change how many element operations a
    /// call needs): it is a fault injected into the history of the calls that follow.
    #[serde(default, skip_serializing_if = "is_zero_u32")]
    pub elem_fault: u32,
}

fn is_zero_u32(v: &u32) -> bool {
    *v == 0
}

#[derive(Serialize, Deserialize, Clone, Debug, PartialEq)]
pub struct ThreadSpec {
    pub ops: Vec<Op>,
    /// the client dies (abandons its remaining operations) right after its first failed call
    #[serde(default)]
    pub crash_on_fault: bool,
}

#[derive(Serialize, Deserialize, Clone, Debug, PartialEq)]
pub enum Sched {
    Uniform { seed: u64 },
    /// keep the running thread with probability stay/16
    Sticky { seed: u64, stay: usize },
    /// PCT-style: random priorities, `depth` priority change points
    Pct { seed: u64, depth: usize, horizon: usize },
    RoundRobin { quantum: usize },
    /// each thread runs to completion, in this order
    Serial { order: Vec<usize> },
    /// every decision written out (replay files)
    Explicit { choices: Vec<u16> },
}

#[derive(Serialize, Deserialize, Clone, Debug, PartialEq)]
pub struct Stall {
    pub thread: usize,
    pub from_step: usize,
    pub len: usize,
}

#[derive(Serialize, Deserialize, Clone, Debug, PartialEq)]
pub struct RunSpec {
    /// slot i is built on a fresh, short-lived builder thread (true) instead of the main thread:
    /// the interpolator is then *moved* to the threads that query it and dropped on yet another
    #[serde(default)]
    pub build_on_thread: Vec<bool>,
    pub slots: Vec<SlotCfg>,
    pub threads: Vec<ThreadSpec>,
    pub sched: Sched,
    #[serde(default)]
    pub stall: Option<Stall>,
    /// this many extra interpolators (copies of the slots' configurations) are alive during the
    /// run: pools, registries and per-instance ids with small capacities need company to show
    #[serde(default)]
    pub ballast: usize,
}

impl RunSpec {
    pub fn n_ops(&self) -> usize {
        self.threads.iter().map(|t| t.ops.len()).sum()
    }
    /// digest of everything but the schedule
    pub fn workload_hash(&self) -> u64 {
        let mut tmp = self.clone();
        tmp.sched = Sched::RoundRobin { quantum: 0 };
        tmp.stall = None;
        let s = serde_json::to_string(&tmp).unwrap();
        let mut h = Fnv::new();
        h.bytes(s.as_bytes());
        h.0
    }
}

#[derive(Serialize, Deserialize, Clone, Copy, Debug, PartialEq, Eq)]
pub enum Class {
    Ok,
    Err,
    Panic,
    /// the harness could not express the call (never produced by a well-formed generator)
    Skip,
}

/// what the stub observed during one operation
#[derive(Serialize, Deserialize, Clone, Debug, PartialEq, Default)]
pub struct StubLog {
    pub calls: u32,
    /// invariant violations detected inside the callbacks (C18)
    pub violations: Vec<String>,
    /// error tokens the stub returned during this operation
    pub tokens: Vec<String>,
    pub panicked: bool,
    /// callbacks of this operation that were suspended by the scheduler (buggify yields)
    pub yields: u32,
    /// element operations (arithmetic / comparison on `Yf`) at which this operation was suspended
    #[serde(default)]
    pub elem_yields: u32,
    /// bit i set = query element i (first 64) was handed to the strategy at least once
    #[serde(default)]
    pub received: u64,
    /// callbacks arrived on a thread that is not executing a harness operation while this
    /// operation ran (library-internal worker threads): attribution by thread-local is then
    /// impossible and the checks over the recorded outcome are skipped for this operation
    #[serde(default)]
    pub foreign_callbacks: bool,
    /// (x bits, y bits) received by callback k of this operation (first 1024 callbacks)
    #[serde(default)]
    pub seen: Vec<(u64, u64)>,
    /// callbacks that arrived on the client's own thread (their sequence is reproducible)
    #[serde(default)]
    pub own_calls: u32,
    /// callbacks that arrived on worker threads of the library and were attributed to this
    /// operation (engine A: the operation of the one client thread that was running)
    #[serde(default)]
    pub foreign_attributed: u32,
    /// bit i set = query element i (first 64) was served by such a callback
    #[serde(default)]
    pub received_foreign: u64,
    /// the planned element-operation fault actually fired
    #[serde(default)]
    pub elem_fault_fired: bool,
    /// re-entrant calls made from inside callbacks of this operation, with their outcomes
    #[serde(default, skip_serializing_if = "Vec::is_empty")]
    pub nested: Vec<Nested>,
}

#[derive(Serialize, Deserialize, Clone, Debug, PartialEq)]
pub struct Nested {
    /// index of the outer callback that made the call
    pub at: u32,
    pub call: Call,
    /// fault plan the nested call ran with
    #[serde(default, skip_serializing_if = "Vec::is_empty")]
    pub plan: Vec<Act>,
    pub out: Outcome,
}

#[derive(Serialize, Deserialize, Clone, Debug, PartialEq)]
pub struct Outcome {
    pub class: Class,
    pub text: String,
    pub shape: Vec<usize>,
    /// result elements as bit patterns (NaN canonicalised)
    pub bits: Vec<u64>,
    /// for *_into: the whole caller allocation including its poison-filled surroundings
    pub backing: Vec<u64>,
    #[serde(default)]
    pub stub: StubLog,
}

impl Outcome {
    pub fn new(class: Class, text: String) -> Outcome {
        Outcome { class, text, shape: vec![], bits: vec![], backing: vec![], stub: StubLog::default() }
    }
    pub fn skip(why: &str) -> Outcome {
        Outcome::new(Class::Skip, why.to_string())
    }
    /// what C17 compares: the answer the caller sees (not how often the strategy was called)
    pub fn same_answer(&self, o: &Outcome) -> bool {
        // A call that did not return Ok has no value: what it left in the caller's buffer is not
        // "the value returned for a query" (and may legitimately vary, e.g. when a library evaluates
        // a batch on several worker threads and one element fails). Class and text must agree.
        let value_matters = self.class == Class::Ok;
        self.class == o.class
            && self.text == o.text
            && self.shape == o.shape
            && (!value_matters || (self.bits == o.bits && self.backing == o.backing))
            && self.stub.violations == o.stub.violations
            && self.stub.nested.len() == o.stub.nested.len()
            && self.stub.nested.iter().zip(o.stub.nested.iter()).all(|(a, b)| a.at == b.at && a.out.same_answer(&b.out))
    }
    pub fn digest(&self) -> u64 {
        let mut h = Fnv::new();
        h.byte(self.class as u8);
        h.str(&self.text);
        h.u64(self.shape.len() as u64);
        for &s in &self.shape {
            h.u64(s as u64);
        }
        if self.class == Class::Ok {
            for &b in &self.bits {
                h.u64(b);
            }
            h.u64(self.backing.len() as u64);
            for &b in &self.backing {
                h.u64(b);
            }
        }
        for v in &self.stub.violations {
            h.str(v);
        }
        for n in &self.stub.nested {
            h.u64(n.at as u64);
            h.u64(n.out.digest());
        }
        h.0
    }
    pub fn brief(&self) -> String {
        let vals: Vec<String> = self
            .bits
            .iter()
            .take(6)
            .map(|b| format!("{:?}", f64::from_bits(*b)))
            .collect();
        format!(
            "{:?}{} shape={:?} vals=[{}{}] digest={:016x}",
            self.class,
            if self.text.is_empty() { String::new() } else { format!("({})", self.text) },
            self.shape,
            vals.join(","),
            if self.bits.len() > 6 { ",.." } else { "" },
            self.digest()
        )
    }
}

pub const CANON_NAN: u64 = 0x7ff8_0000_0000_0000;

pub fn canon(bits: u64) -> u64 {
    if f64::from_bits(bits).is_nan() {
        CANON_NAN
    } else {
        bits
    }
}

pub fn next_up(x: f64) -> f64 {
    if x.is_nan() || x == f64::INFINITY {
        return x;
    }
    if x == 0.0 {
        return f64::from_bits(1);
    }
    let b = x.to_bits();
    if x > 0.0 {
        f64::from_bits(b + 1)
    } else {
        f64::from_bits(b - 1)
    }
}

pub fn next_down(x: f64) -> f64 {
    -next_up(-x)
}

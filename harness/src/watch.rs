//! Process-level watchdog for library calls made outside the baton (reference tabulation and
//! epilogue run on the main thread, with nobody to notice that a call never returns). A call that
//! is still in flight after `LIMIT` ends the process with exit code 3 and a `HUNG` line; the driver
//! decides what that means. Uses the real clock, which takes no part in any scheduling decision.

use std::sync::atomic::{AtomicBool, AtomicU64, Ordering};
use std::time::{Duration, Instant};

static ENABLED: AtomicBool = AtomicBool::new(false);
/// milliseconds since `start()` at which the call in flight began (0 = none)
static SINCE: AtomicU64 = AtomicU64::new(0);
static NEST: AtomicBool = AtomicBool::new(false);
static T0: std::sync::OnceLock<Instant> = std::sync::OnceLock::new();

pub const LIMIT: Duration = Duration::from_secs(12);

pub fn enabled() -> bool {
    ENABLED.load(Ordering::Relaxed)
}

fn now_ms() -> u64 {
    T0.get().map(|t| t.elapsed().as_millis() as u64 + 1).unwrap_or(0)
}

pub fn begin(nest: bool) {
    NEST.store(nest, Ordering::Relaxed);
    SINCE.store(now_ms(), Ordering::Relaxed);
}

pub fn end() {
    SINCE.store(0, Ordering::Relaxed);
}

/// start the watchdog thread (block / replay / ref commands; never under Miri)
pub fn start() {
    if T0.set(Instant::now()).is_err() {
        return;
    }
    ENABLED.store(true, Ordering::Relaxed);
    std::thread::spawn(|| loop {
        std::thread::sleep(Duration::from_millis(500));
        let s = SINCE.load(Ordering::Relaxed);
        if s != 0 && now_ms().saturating_sub(s) > LIMIT.as_millis() as u64 {
            println!(
                "HUNG run={} nest={}",
                crate::engine::CURRENT_RUN.load(Ordering::Relaxed),
                NEST.load(Ordering::Relaxed) && !crate::stub::NO_NEST.load(Ordering::Relaxed)
            );
            std::process::exit(3);
        }
    });
}

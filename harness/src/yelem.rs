//! The numeric-type seam: `Yf`, a user-defined element type (an `f64` in a newtype) whose
//! arithmetic, comparison and conversion operators are yield points of the baton scheduler.
//!
//! The library is generic over the element type (`Num + PartialOrd + NumCast + Copy + ...`), so an
//! interpolator over `Yf` data runs the *real* built-in strategies, index search and range checks
//! while engine A can suspend a call between any two element operations — no hook in `/repo`, native
//! speed, and the interleaving is part of the recorded (replayable, minimisable) schedule trace.
//! Which operations yield is drawn from a per-operation seed (`Op::yield_mask`), never from a clock.

use std::cell::Cell;
use std::cmp::Ordering;
use std::ops::{Add, Div, Mul, Neg, Rem, Sub, SubAssign};

use ndarray::ScalarOperand;
use num_traits::{Euclid, Num, NumCast, One, Pow, ToPrimitive, Zero};

use crate::sched;

#[derive(Clone, Copy)]
struct Ticker {
    state: u64,
    /// element operations until the next yield point (u32::MAX: this call has no yield points)
    countdown: u32,
    mean_gap: u32,
    yields: u32,
    /// element operations executed by this call so far
    ops: u32,
    /// the element operation with this number panics (0 = none)
    fault_at: u32,
    fired: bool,
}

crate::tls! {
    static TICKER: Cell<Option<Ticker>> = const { Cell::new(None) };
}

fn next(state: &mut u64) -> u64 {
    crate::rng::splitmix64(state)
}

fn draw_gap(state: &mut u64, mean: u32) -> u32 {
    // uniform in 1..=2*mean-1: mean `mean`, never 0
    1 + (next(state) % (2 * mean as u64 - 1).max(1)) as u32
}

pub const ELEM_FAULT_MSG: &str = "yf-element-operation-fault";

/// arm the element-operation yield points (seed != 0) and the element-operation fault
/// (fault_at != 0) for the operation about to run on this thread
pub fn arm(seed: u64, fault_at: u32) {
    if seed == 0 && fault_at == 0 {
        TICKER.with(|t| t.set(None));
        return;
    }
    let mut state = seed;
    // mean gap between yields: 4 .. 67 element operations, fixed per operation
    let (mean_gap, countdown) = if seed == 0 {
        (1, u32::MAX)
    } else {
        let mean_gap = 4 + (next(&mut state) % 64) as u32;
        (mean_gap, draw_gap(&mut state, mean_gap))
    };
    TICKER.with(|t| t.set(Some(Ticker { state, countdown, mean_gap, yields: 0, ops: 0, fault_at, fired: false })));
}

/// disarm; returns how often the operation was actually suspended and whether the fault fired
pub fn disarm() -> (u32, bool) {
    TICKER.with(|t| t.take()).map(|t| (t.yields, t.fired)).unwrap_or((0, false))
}

#[inline]
fn tick() {
    TICKER.with(|t| {
        if let Some(mut k) = t.get() {
            k.ops += 1;
            if k.fault_at != 0 && k.ops == k.fault_at {
                // fires exactly once per call: nothing executed while unwinding can fire it again
                k.fired = true;
                t.set(Some(k));
                panic!("{}", ELEM_FAULT_MSG);
            }
            if k.countdown != u32::MAX {
                k.countdown -= 1;
            }
            if k.countdown == 0 {
                k.countdown = draw_gap(&mut k.state, k.mean_gap);
                t.set(Some(k));
                if sched::yield_now(sched::SITE_ELEM) {
                    // re-read: nothing else on this thread touches the ticker meanwhile
                    if let Some(mut k2) = t.get() {
                        k2.yields += 1;
                        t.set(Some(k2));
                    }
                }
            } else {
                t.set(Some(k));
            }
        }
    })
}

#[derive(Clone, Copy, Default)]
pub struct Yf(pub f64);

impl std::fmt::Debug for Yf {
    fn fmt(&self, f: &mut std::fmt::Formatter<'_>) -> std::fmt::Result {
        std::fmt::Debug::fmt(&self.0, f)
    }
}

impl PartialEq for Yf {
    fn eq(&self, o: &Yf) -> bool {
        tick();
        self.0 == o.0
    }
}
impl PartialOrd for Yf {
    fn partial_cmp(&self, o: &Yf) -> Option<Ordering> {
        tick();
        self.0.partial_cmp(&o.0)
    }
    fn lt(&self, o: &Yf) -> bool {
        tick();
        self.0 < o.0
    }
    fn le(&self, o: &Yf) -> bool {
        tick();
        self.0 <= o.0
    }
    fn gt(&self, o: &Yf) -> bool {
        tick();
        self.0 > o.0
    }
    fn ge(&self, o: &Yf) -> bool {
        tick();
        self.0 >= o.0
    }
}

macro_rules! binop {
    ($tr:ident, $f:ident, $op:tt) => {
        impl $tr for Yf {
            type Output = Yf;
            fn $f(self, o: Yf) -> Yf {
                tick();
                Yf(self.0 $op o.0)
            }
        }
        impl<'a> $tr<&'a Yf> for Yf {
            type Output = Yf;
            fn $f(self, o: &'a Yf) -> Yf {
                tick();
                Yf(self.0 $op o.0)
            }
        }
        impl<'a> $tr<Yf> for &'a Yf {
            type Output = Yf;
            fn $f(self, o: Yf) -> Yf {
                tick();
                Yf(self.0 $op o.0)
            }
        }
        impl<'a, 'b> $tr<&'b Yf> for &'a Yf {
            type Output = Yf;
            fn $f(self, o: &'b Yf) -> Yf {
                tick();
                Yf(self.0 $op o.0)
            }
        }
    };
}
binop!(Add, add, +);
binop!(Sub, sub, -);
binop!(Mul, mul, *);
binop!(Div, div, /);
binop!(Rem, rem, %);

impl Neg for Yf {
    type Output = Yf;
    fn neg(self) -> Yf {
        tick();
        Yf(-self.0)
    }
}
impl SubAssign for Yf {
    fn sub_assign(&mut self, o: Yf) {
        tick();
        self.0 -= o.0;
    }
}
impl Zero for Yf {
    fn zero() -> Yf {
        Yf(0.0)
    }
    fn is_zero(&self) -> bool {
        self.0 == 0.0
    }
}
impl One for Yf {
    fn one() -> Yf {
        Yf(1.0)
    }
}
impl Num for Yf {
    type FromStrRadixErr = <f64 as Num>::FromStrRadixErr;
    fn from_str_radix(s: &str, r: u32) -> Result<Yf, Self::FromStrRadixErr> {
        f64::from_str_radix(s, r).map(Yf)
    }
}
impl ToPrimitive for Yf {
    fn to_i64(&self) -> Option<i64> {
        tick();
        self.0.to_i64()
    }
    fn to_u64(&self) -> Option<u64> {
        tick();
        self.0.to_u64()
    }
    fn to_isize(&self) -> Option<isize> {
        tick();
        self.0.to_isize()
    }
    fn to_usize(&self) -> Option<usize> {
        tick();
        self.0.to_usize()
    }
    fn to_f32(&self) -> Option<f32> {
        tick();
        self.0.to_f32()
    }
    fn to_f64(&self) -> Option<f64> {
        tick();
        self.0.to_f64()
    }
}
impl NumCast for Yf {
    fn from<T: ToPrimitive>(n: T) -> Option<Yf> {
        tick();
        n.to_f64().map(Yf)
    }
}
impl Pow<Yf> for Yf {
    type Output = Yf;
    fn pow(self, e: Yf) -> Yf {
        tick();
        Yf(self.0.powf(e.0))
    }
}
impl Euclid for Yf {
    fn div_euclid(&self, v: &Yf) -> Yf {
        tick();
        Yf(self.0.div_euclid(v.0))
    }
    fn rem_euclid(&self, v: &Yf) -> Yf {
        tick();
        Yf(self.0.rem_euclid(v.0))
    }
}
impl ScalarOperand for Yf {}

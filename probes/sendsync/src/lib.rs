//! Static precondition probe for C17 (not simulation, and not presented as such):
//! "Interpolators over thread-safe storage are Send and Sync" is a compile-time fact.
//! `cargo check` on this crate failing with E0277 is reported as a C17 violation.
#![allow(dead_code)]

use ndarray::{ArcArray, Array, ArrayView, Ix1, Ix2, Ix3, Ix4, Ix5, Ix6, IxDyn, OwnedArcRepr, OwnedRepr, ViewRepr};
use ndarray_interp::interp1d::cubic_spline::CubicSplineStrategy;
use ndarray_interp::interp1d::{Interp1D, Linear};
use ndarray_interp::interp2d::{Bilinear, Interp2D};

fn need<T: Send + Sync>() {}

type Own<T> = OwnedRepr<T>;
type View<'a, T> = ViewRepr<&'a T>;
type Arc<T> = OwnedArcRepr<T>;

macro_rules! lin1 {
    ($T:ty, $D:ty, $Sd:ty, $Sx:ty) => {
        need::<Interp1D<$Sd, $Sx, $D, Linear>>();
    };
}
macro_rules! spl1 {
    ($T:ty, $D:ty, $Sd:ty, $Sx:ty) => {
        need::<Interp1D<$Sd, $Sx, $D, CubicSplineStrategy<$Sd, $D>>>();
    };
}

/// every storage combination of (data, axis) for one element type and data dimension type
macro_rules! one_d {
    ($m:ident, $T:ty, $D:ty) => {
        $m!($T, $D, Own<$T>, Own<$T>);
        $m!($T, $D, View<'static, $T>, View<'static, $T>);
        $m!($T, $D, View<'static, $T>, Own<$T>);
        $m!($T, $D, Arc<$T>, Arc<$T>);
        $m!($T, $D, Arc<$T>, Own<$T>);
        $m!($T, $D, Own<$T>, View<'static, $T>);
        $m!($T, $D, Own<$T>, Arc<$T>);
        $m!($T, $D, View<'static, $T>, Arc<$T>);
    };
}

macro_rules! two_d {
    ($T:ty, $D:ty) => {
        need::<Interp2D<Own<$T>, Own<$T>, Own<$T>, $D, Bilinear>>();
        need::<Interp2D<View<'static, $T>, View<'static, $T>, View<'static, $T>, $D, Bilinear>>();
        need::<Interp2D<View<'static, $T>, Own<$T>, Own<$T>, $D, Bilinear>>();
        need::<Interp2D<Arc<$T>, Arc<$T>, Arc<$T>, $D, Bilinear>>();
        need::<Interp2D<Arc<$T>, Own<$T>, View<'static, $T>, $D, Bilinear>>();
        need::<Interp2D<Own<$T>, Arc<$T>, Own<$T>, $D, Bilinear>>();
        need::<Interp2D<View<'static, $T>, View<'static, $T>, Own<$T>, $D, Bilinear>>();
        need::<Interp2D<Own<$T>, Own<$T>, Arc<$T>, $D, Bilinear>>();
    };
}

macro_rules! all_dims_1d {
    ($m:ident, $T:ty) => {
        one_d!($m, $T, Ix1);
        one_d!($m, $T, Ix2);
        one_d!($m, $T, Ix3);
        one_d!($m, $T, Ix4);
        one_d!($m, $T, Ix5);
        one_d!($m, $T, Ix6);
        one_d!($m, $T, IxDyn);
    };
}
macro_rules! all_dims_2d {
    ($T:ty) => {
        two_d!($T, Ix2);
        two_d!($T, Ix3);
        two_d!($T, Ix4);
        two_d!($T, Ix5);
        two_d!($T, Ix6);
        two_d!($T, IxDyn);
    };
}

/// Send and Sync are required separately as well (a type can lose one and keep the other)
fn need_send<T: Send>() {}
fn need_sync<T: Sync>() {}

pub fn all() {
    all_dims_1d!(lin1, f64);
    all_dims_1d!(lin1, f32);
    all_dims_1d!(lin1, i32);
    all_dims_1d!(lin1, i64);
    all_dims_1d!(lin1, u8);
    all_dims_1d!(spl1, f64);
    all_dims_1d!(spl1, f32);
    all_dims_2d!(f64);
    all_dims_2d!(f32);
    all_dims_2d!(i32);
    all_dims_2d!(i64);
    need_send::<Interp1D<Own<f64>, Own<f64>, Ix1, Linear>>();
    need_sync::<Interp1D<Own<f64>, Own<f64>, Ix1, Linear>>();
    need_send::<Interp1D<Arc<f64>, Arc<f64>, IxDyn, CubicSplineStrategy<Arc<f64>, IxDyn>>>();
    need_sync::<Interp1D<Arc<f64>, Arc<f64>, IxDyn, CubicSplineStrategy<Arc<f64>, IxDyn>>>();
    need_send::<Interp2D<Arc<f64>, Arc<f64>, Arc<f64>, IxDyn, Bilinear>>();
    need_sync::<Interp2D<Arc<f64>, Arc<f64>, Arc<f64>, IxDyn, Bilinear>>();
    // the strategies and the arrays themselves (sanity: if the arrays fail the probe is wrong, not the crate)
    need::<Linear>();
    need::<Bilinear>();
    need::<CubicSplineStrategy<Own<f64>, Ix3>>();
    need::<Array<f64, Ix1>>();
    need::<ArrayView<'static, f64, Ix2>>();
    need::<ArcArray<f64, IxDyn>>();
}

//! Static precondition probe for C17 (not simulation, and not presented as such):
//! "Interpolators over thread-safe storage are Send and Sync" is a compile-time fact.
//! `cargo check` on this crate failing with E0277 is reported as a C17 violation.
#![allow(dead_code)]

use ndarray::{ArcArray, Array, ArrayView, Ix1, Ix2, Ix3, IxDyn, OwnedRepr, OwnedArcRepr, ViewRepr};
use ndarray_interp::interp1d::cubic_spline::CubicSplineStrategy;
use ndarray_interp::interp1d::{Interp1D, Linear};
use ndarray_interp::interp2d::{Bilinear, Interp2D};

fn need<T: Send + Sync>() {}

type Own<T> = OwnedRepr<T>;
type View<'a, T> = ViewRepr<&'a T>;
type Arc<T> = OwnedArcRepr<T>;

macro_rules! one_d {
    ($T:ty, $D:ty) => {
        need::<Interp1D<Own<$T>, Own<$T>, $D, Linear>>();
        need::<Interp1D<View<'static, $T>, View<'static, $T>, $D, Linear>>();
        need::<Interp1D<View<'static, $T>, Own<$T>, $D, Linear>>();
        need::<Interp1D<Arc<$T>, Arc<$T>, $D, Linear>>();
        need::<Interp1D<Own<$T>, Own<$T>, $D, CubicSplineStrategy<Own<$T>, $D>>>();
        need::<Interp1D<View<'static, $T>, View<'static, $T>, $D, CubicSplineStrategy<View<'static, $T>, $D>>>();
        need::<Interp1D<View<'static, $T>, Own<$T>, $D, CubicSplineStrategy<View<'static, $T>, $D>>>();
        need::<Interp1D<Arc<$T>, Arc<$T>, $D, CubicSplineStrategy<Arc<$T>, $D>>>();
    };
}

macro_rules! two_d {
    ($T:ty, $D:ty) => {
        need::<Interp2D<Own<$T>, Own<$T>, Own<$T>, $D, Bilinear>>();
        need::<Interp2D<View<'static, $T>, View<'static, $T>, View<'static, $T>, $D, Bilinear>>();
        need::<Interp2D<View<'static, $T>, Own<$T>, Own<$T>, $D, Bilinear>>();
        need::<Interp2D<Arc<$T>, Arc<$T>, Arc<$T>, $D, Bilinear>>();
    };
}

pub fn all() {
    one_d!(f64, Ix1);
    one_d!(f64, Ix2);
    one_d!(f64, Ix3);
    one_d!(f64, IxDyn);
    one_d!(f32, Ix1);
    one_d!(f32, Ix2);
    one_d!(f32, Ix3);
    one_d!(f32, IxDyn);
    two_d!(f64, Ix2);
    two_d!(f64, Ix3);
    two_d!(f64, IxDyn);
    two_d!(f32, Ix2);
    two_d!(f32, Ix3);
    two_d!(f32, IxDyn);
    // the array types themselves (sanity: if these fail the probe is wrong, not the crate)
    need::<Array<f64, Ix1>>();
    need::<ArrayView<'static, f64, Ix2>>();
    need::<ArcArray<f64, IxDyn>>();
}

"""Self-tests of the machinery: determinism, sensitivity (property-breaking changes must be caught
within the quick budget) and benign changes (must not raise an alarm).

  ./check selftest determinism
  ./check selftest sensitivity [M1 c17a ...]
  ./check selftest benign [B1 ...]

Sensitivity/benign apply each patch to a scratch worktree of /repo's HEAD under /tmp (removed
afterwards together with its build output) and point the checks at it; /repo is never modified.
"""
import json
import os
import subprocess
import sys
import time

VERIF = os.path.dirname(os.path.abspath(__file__))

# name -> (patch file, check to run, expected violation kinds (any of), engine expected to catch it)
SENSITIVITY = {
    "M1": ("mutants/M1.diff", "C17", ["result-mismatch", "data-race"], "B (Miri): torn two-atomics lookup cache"),
    "M3": ("mutants/M3.diff", "C17", ["data-race", "result-mismatch"], "B (Miri): unsafe impl Sync scratch cell"),
    "M4": ("mutants/M4.diff", "C17", ["not-send-sync", "result-mismatch", "entry-point-mismatch"], "static probe (!Sync) + A: Cell cache keyed in f32 precision"),
    "M6": ("mutants/M6.diff", "C17", ["result-mismatch", "entry-point-mismatch", "reference-unstable"], "A: static memo keyed by axis address"),
    "M7": ("mutants/M7.diff", "C17", ["result-mismatch"], "A: mutex poisoned by the bad-buffer panic"),
    "M8": ("mutants/M8.diff", "C18", ["build-invoked-on-invalid-input", "build-invariant"], "A: builder decision table"),
    "M9": ("mutants/M9.diff", "C18", ["wrong-target", "callback-invariant"], "A: target correspondence, rank>=3 queries"),
    "M10": ("mutants/M10.diff", "C18", ["error-changed"], "A: error identity, fast path"),
    "M12": ("mutants/M12.diff", "C18", ["callback-invariant", "wrong-target"], "A: unmodified query value (interp_scalar)"),
    "M13": ("mutants/M13.diff", "C18", ["callback-invariant"], "A: is_in_range is the closed-range test (NaN)"),
    "M14": ("mutants/M14.diff", "C18", ["build-invoked-on-invalid-input", "build-invariant"], "A: builder decision table, y axis of Interp2D"),
    "M15": ("mutants/M15.diff", "C17", ["result-mismatch", "entry-point-mismatch"], "A: element-operation fault (Yf) tears a key/value memo; later query of the same value"),
    "c17a": ("seeded/c17a/patch.diff", "C17", ["result-mismatch"], "B (Miri)"),
    "c17b": ("seeded/c17b/patch.diff", "C17", ["result-mismatch"], "A"),
    "c17c": ("seeded/c17c/patch.diff", "C17", ["result-mismatch", "entry-point-mismatch", "reference-unstable"], "A"),
    "c18a": ("seeded/c18a/patch.diff", "C18", ["callback-invariant", "wrong-target"], "A"),
    "c18b": ("seeded/c18b/patch.diff", "C18", ["error-swallowed"], "A"),
    "c18c": ("seeded/c18c/patch.diff", "C18", ["build-invariant", "build-invoked-on-invalid-input"], "A"),
    "r2a": ("seeded/r2a/patch.diff", "C17", ["entry-point-mismatch"], "A: entry-point clause"),
    "r2b": ("seeded/r2b/patch.diff", "C17", ["result-mismatch"], "B (Miri): Bilinear hammer workloads"),
    "r2c": ("seeded/r2c/patch.diff", "C17", ["result-mismatch"], "A: oob fault then ordinary queries"),
    "r2d": ("seeded/r2d/patch.diff", "C17", ["result-mismatch", "data-race", "reference-unstable"], "A: sibling build over shared storage"),
    "r2e": ("seeded/r2e/patch.diff", "C18", ["callback-invariant"], "A: accessor probes"),
    "r2f": ("seeded/r2f/patch.diff", "C18", ["wrong-target"], "A: target correspondence"),
    "r3a": ("seeded/r3a/patch.diff", "C17", ["result-mismatch"], "A: long histories, knot queries"),
    "r3b": ("seeded/r3b/patch.diff", "C17", ["result-mismatch"], "A via the numeric-type seam (Yf) + B (Miri)"),
    "r3c": ("seeded/r3c/patch.diff", "C18", ["query-element-not-delivered"], "A: delivery of every query element"),
    "r3d": ("seeded/r3d/patch.diff", "C18", ["query-element-not-delivered"], "A: delivery of every query element"),
    "r4a": ("seeded/r4a/patch.diff", "C17", ["result-mismatch"], "A: badbuf then plain query, Bilinear"),
    "r4b": ("seeded/r4b/patch.diff", "C17", ["result-mismatch"], "A: interpolators built on other threads"),
    "r4c": ("seeded/r4c/patch.diff", "C18", ["callback-invariant"], "A: target shape"),
    "r4d": ("seeded/r4d/patch.diff", "C18", ["build-error-changed"], "A: builder decision table"),
    "r5a": ("seeded/r5a/patch.diff", "C17", ["result-mismatch", "reference-unstable", "entry-point-mismatch"], "A: address reuse after drop"),
    "r5b": ("seeded/r5b/patch.diff", "C17", ["result-mismatch"], "A via the numeric-type seam + B"),
    "r5c": ("seeded/r5c/patch.diff", "C18", ["query-element-not-delivered", "error-invented", "error-swallowed", "concurrent-operation-affected"], "B (Miri) pass of C18"),
    "r5d": ("seeded/r5d/patch.diff", "C18", ["build-invariant"], "A: builder inputs with reversed-stride axis views"),
    "r6a": ("seeded/r6a/patch.diff", "C17", ["process-history-dependence", "result-mismatch"], "A: fresh-process reference + relative slots"),
    "r6b": ("seeded/r6b/patch.diff", "C17", ["result-mismatch", "process-history-dependence"], "A: long axes, interpolators alive together after a drop"),
    "r6c": ("seeded/r6c/patch.diff", "C18", ["callback-invariant"], "A: signed zero among the query values"),
    "r6d": ("seeded/r6d/patch.diff", "C18", ["wrong-target"], "A: query/buffer layouts"),
    "r7a": ("seeded/r7a/patch.diff", "C17", ["result-mismatch", "entry-point-mismatch"], "A: f32 slots, repeated segment"),
    "r7b": ("seeded/r7b/patch.diff", "C17", ["result-mismatch"], "A: stub writes part of its target before failing"),
    "r7c": ("seeded/r7c/patch.diff", "C18", ["callback-invariant"], "A + B: target shape, high combined rank"),
    "r8a": ("seeded/r8a/patch.diff", "C17", ["entry-point-mismatch"], "A: entry-point clause, query layouts"),
    "r8b": ("seeded/r8b/patch.diff", "C17", ["process-history-dependence"], "A: fresh-process reference"),
    "r8c": ("seeded/r8c/patch.diff", "C18", ["wrong-target"], "A: injective callback-to-target attribution, repeated elements"),
    "r8d": ("seeded/r8d/patch.diff", "C18", ["build-invariant", "build-invoked-on-invalid-input"], "A: setter orders x decision table"),
    "r9a": ("seeded/r9a/patch.diff", "C17", ["result-mismatch", "entry-point-mismatch"], "A: failed n-d batch (error return) then another n-d batch"),
    "r9b": ("seeded/r9b/patch.diff", "C17", ["result-mismatch"], "B (Miri): racy row reservation of a lazily filled slope cache"),
    "r9c": ("seeded/r9c/patch.diff", "C18", ["build-invariant", "build-invoked-on-invalid-input"], "A: builder decision table, n-d data below the declared minimum"),
    "r9d": ("seeded/r9d/patch.diff", "C18", ["build-invariant", "build-invoked-on-invalid-input"], "A: builder decision table after a successful build (address reuse)"),
    "r10a": ("seeded/r10a/patch.diff", "C17", ["result-mismatch", "entry-point-mismatch"], "A: query inside a cell, then a query exactly on the neighbouring knot line (Bilinear, f64 last bit / integers)"),
    "r10b": ("seeded/r10b/patch.diff", "C17", ["result-mismatch", "data-race"], "B (Miri): CubicSpline segment memo whose guard releases a flag it never acquired"),
    "r10c": ("seeded/r10c/patch.diff", "C18", ["wrong-target", "callback-invariant", "concurrent-operation-affected", "query-element-not-delivered"], "A: re-entrant n-d batch inside an n-d batch (thread-local index cursor)"),
    "r10d": ("seeded/r10d/patch.diff", "C18", ["callback-invariant", "wrong-target"], "A: index_point on data whose trailing axes are permuted among themselves (Mix layouts)"),
    "r11a": ("seeded/r11a/patch.diff", "C17", ["result-mismatch"], "C (shuttle) / B: Mutex+Condvar single-flight cache whose waiter does not re-check the key (segments i and i+8)"),
    "r11b": ("seeded/r11b/patch.diff", "C17", ["result-mismatch", "answers-differ-between-processes", "process-history-dependence", "entry-point-mismatch", "reference-unstable"], "C (simulated clock) / B (Miri virtual clock): evaluation kernel re-tuned once per second from timings"),
    "r11c": ("seeded/r11c/patch.diff", "C18", ["wrong-target", "query-element-not-delivered", "callback-invariant", "error-swallowed"], "A: large batches evaluated on library worker threads, chunk starts off when rows % 4 != 0"),
    "r11d": ("seeded/r11d/patch.diff", "C18", ["callback-invariant"], "A: strategy calls get_index_left_of on an out-of-range query, then is_in_range between the axis end and that query"),
    "r12a": ("seeded/r12a/patch.diff", "C17", ["result-mismatch", "entry-point-mismatch"], "A (Yf seam) / B: periodic fold skipped on the slot-busy path; atomics imported from core::, invisible to the std facade"),
    "r12b": ("seeded/r12b/patch.diff", "C17", ["result-mismatch", "entry-point-mismatch"], "A: element-operation panic while the Linear cursor's slope row is refilled; Drop guard parks it with the old label"),
    "r12c": ("seeded/r12c/patch.diff", "C18", ["build-invariant", "build-invoked-on-invalid-input"], "A: builder decision table on long axes (block seams at 64/65, 129/130 ...)"),
    "r12d": ("seeded/r12d/patch.diff", "C18", ["callback-invariant", "concurrent-operation-affected", "wrong-target"], "C / B: per-axis one-entry memo filled in a second critical section without re-checking the key"),
    "r13a": ("seeded/r13a/patch.diff", "C17", ["result-mismatch", "entry-point-mismatch"], "A: lazily made 'row-major copy' of contiguous non-standard-order data, created by the first bulk query"),
    "r13b": ("seeded/r13b/patch.diff", "C17", ["result-mismatch", "entry-point-mismatch"], "A: Linear remembers 'layouts agree' in an AtomicBool; later interp_into with a contiguous, differently ordered target"),
    "r13c": ("seeded/r13c/patch.diff", "C18", ["wrong-target", "callback-invariant"], "A: 2-D general path walks xs/ys with Zip (column-major when both are F-ordered) against row-major targets"),
    "r13d": ("seeded/r13d/patch.diff", "C18", ["panic-invented", "concurrent-operation-affected", "error-changed"], "A: per-thread nesting counter leaks one level per strategy panic; after 64 every query on the thread panics"),
    "r14a": ("seeded/r14a/patch.diff", "C17", ["result-mismatch", "entry-point-mismatch", "reference-unstable"], "A: thread-local accelerator table; Drop on a foreign thread frees the same-numbered entry of another interpolator"),
    "r14b": ("seeded/r14b/patch.diff", "C17", ["result-mismatch", "entry-point-mismatch"], "A: last-segment hint validated with a truncating integer quotient (i64 slots, knot spacing > 1)"),
    "r14c": ("seeded/r14c/patch.diff", "C18", ["build-invariant", "build-invoked-on-invalid-input"], "A: builder decision table with setter orders (.x(bad).y(bad).x(good))"),
    "r14d": ("seeded/r14d/patch.diff", "C18", ["build-invariant", "build-invoked-on-invalid-input"], "A: default axis of an element type whose usize conversion is inexact (low-precision newtype)"),
    "r15a": ("seeded/r15a/patch.diff", "C17", ["result-mismatch", "entry-point-mismatch"], "A: volume scenario - a u16 batch tag wraps after 65 536 batches on one interpolator"),
    "r15b": ("seeded/r15b/patch.diff", "C17", ["result-mismatch"], "C: 128-slot OnceLock memo for axes >= 64 knots; get() then get_or_init() without re-checking the key"),
    "r15c": ("seeded/r15c/patch.diff", "C18", ["build-invariant", "build-invoked-on-invalid-input"], "A: builder decision table with a tie made of -0.0 and +0.0"),
    "r15d": ("seeded/r15d/patch.diff", "C18", ["query-element-not-delivered", "error-swallowed", "wrong-target", "concurrent-operation-affected"], "A: a nested (re-entrant) call whose strategy invocation fails raises a thread-local stop flag that ends the outer batch"),
    "r16a": ("seeded/r16a/patch.diff", "C17", ["result-mismatch"], "C / B: one-entry cache of the packed end piece of an extrapolating spline, ensure-then-use with two lock acquisitions"),
    "r16b": ("seeded/r16b/patch.diff", "C17", ["result-mismatch"], "C / B: Bilinear scratch-row pool whose lease is a load followed by an unchecked fetch_or"),
    "r16d": ("seeded/r16d/patch.diff", "C18", ["callback-invariant"], "A: range accessors and get_index_left_of run on as_slice_memory_order(): wrong for a stride -1 axis view"),
    "r17a": ("seeded/r17a/patch.diff", "C17", ["process-history-dependence", "result-mismatch", "reference-unstable", "entry-point-mismatch"], "A: spline coefficients shared through a registry keyed by an order-insensitive checksum of the data (relative slots with permuted data, fresh-process reference)"),
    "r17b": ("seeded/r17b/patch.diff", "C17", ["result-mismatch"], "C: hot-segment table under an RwLock, compacted by a rare writer between a reader's two lock acquisitions"),
    "r17c": ("seeded/r17c/patch.diff", "C18", ["callback-invariant", "error-swallowed", "wrong-target", "query-element-not-delivered"], "A: batch elements a few ulps outside the range are snapped to the axis end before the strategy sees them"),
    "r17d": ("seeded/r17d/patch.diff", "C18", ["callback-invariant"], "A: Interp2D keeps a packed copy of widely strided axes; index_point reads y from the x copy"),
    "r18a": ("seeded/r18a/patch.diff", "C17", ["result-mismatch", "entry-point-mismatch"], "A: huge-axis scenario - index hint with a closed-interval test, engaged only for axes of >= 1024 knots"),
    "r18b": ("seeded/r18b/patch.diff", "C18", ["build-invariant", "build-invoked-on-invalid-input"], "A: huge-axis builder cases - block-wise monotonicity fast path (4096) skipping the seam pairs"),
    "r19a": ("seeded/r19a/patch.diff", "C17", ["result-mismatch", "entry-point-mismatch"], "A: Bilinear row memo whose x key is written before the y part can fail (Err in y, then the same x with a valid y)"),
    "r19b": ("seeded/r19b/patch.diff", "C17", ["result-mismatch"], "C / B: interned axis tables in a registry whose handles publish (generation, position) in the wrong order; builds and drops move entries"),
    "r19c": ("seeded/r19c/patch.diff", "C18", ["callback-invariant"], "A: single-point fast path for n-d queries hands the whole buffer (extra length-1 axes) to the strategy for dynamic-rank data"),
    "r19d": ("seeded/r19d/patch.diff", "C18", ["wrong-target", "concurrent-operation-affected", "query-element-not-delivered", "callback-invariant"], "C / B: single-flight coalescing of identical point queries; a follower sleeps through the next flight and copies its row"),
    "r20a": ("seeded/r20a/patch.diff", "C17", ["result-mismatch", "entry-point-mismatch"], "A: thread-local 'range already checked' marker set before the Zip that panics on a bad buffer, never cleared on unwind"),
    "r20b": ("seeded/r20b/patch.diff", "C17", ["not-send-sync"], "static probe: hand-written unsafe impl Send for Interp2D<Sd, Sx, Sx, ..> - lost when x and y use different storage types"),
    "r20c": ("seeded/r20c/patch.diff", "C18", ["build-invariant", "build-invoked-on-invalid-input"], "A: 2-D minimum-length check as a lexicographic tuple comparison (4 x 2 grid, declared minimum 3)"),
    "r20d": ("seeded/r20d/patch.diff", "C18", ["callback-invariant", "wrong-target"], "A: Interp2D n-d path gathers xs|ys into a grow-only scratch split at len/2: stale ys after a larger query"),
    "r21a": ("seeded/r21a/patch.diff", "C17", ["result-mismatch", "entry-point-mismatch"], "A: thread-local memo of the last out-of-range message keyed by (element type, value bits): x and y rejections of the same value share it"),
    "r21b": ("seeded/r21b/patch.diff", "C17", ["result-mismatch", "data-race"], "C / B: slope row behind a 'biased lock' (UnsafeCell + unsafe impl Sync); the owner's load-then-store fast path races a take-over CAS"),
    "r21c": ("seeded/r21c/patch.diff", "C18", ["error-changed", "callback-invariant"], "A: batch loops append the query index to errors whose text ends in 'is not in range' - also a user strategy's"),
    "r21d": ("seeded/r21d/patch.diff", "C18", ["callback-invariant"], "A: degenerate-stride table - index_point via precomputed row offsets whose bounds check is index*|stride| < len*|stride| (stride 0)"),
    "r22a": ("seeded/r22a/patch.diff", "C17", ["result-mismatch", "entry-point-mismatch"], "A: periodic extrapolating spline remembers (period number from 0, distance) of the last wrap; the bucket straddles a true period boundary when x0 is not a multiple of the period"),
    "r22b": ("seeded/r22b/patch.diff", "C18", ["build-invoked-on-invalid-input", "build-invariant"], "A: aliasing builder cases - 2-D builder skips the y scan when y starts at x's first element with the same length (stride ignored)"),
    "M17": ("mutants/M17.diff", "C17", ["result-mismatch"], "A: degenerate-stride histories - Linear packs the rows on first use, taking stride[0] elements per row (0 for a broadcast row); later calls read the packed copy"),
    "M16": ("mutants/M16.diff", "C17", ["answers-differ-between-processes", "process-history-dependence"], "A: evaluation order picked once per process from the hasher's random seed"),
}
# seeded/r7d is kept but not listed: its author reads C18 as forbidding one-point axes for strategies
# with declared minimum <= 1; the statement's parenthesis does not (see seeded/r7d/meta.json, DESIGN 14.3)
# seeded/r16c likewise: it needs a strategy that leaves lanes of its target unwritten (or reads the target's
# initial contents); the statement promises the target's shape, not its initial contents (seeded/r16c/meta.json)
_NOT_FLAGGED = {"r7d": "seeded/r7d/patch.diff", "r16c": "seeded/r16c/patch.diff"}

BENIGN = {
    "B1": ("mutants/B1.diff", "a correct mutex-protected lookup cache"),
    "B2": ("mutants/B2.diff", "a consistent change of the linear formula (values change, identically everywhere)"),
    "B3": ("mutants/B3.diff", "general path rejects wrongly shaped buffers up front"),
    "B4": ("mutants/B4.diff", "general path accepts strided buffers (layout-agnostic sub-view)"),
    "B5": ("mutants/B5.diff", "different wording of the out-of-range error"),
    "B7": ("mutants/B7.diff", "a CORRECT parallel evaluation of large batches on library worker threads (seeded change r11c with its chunk arithmetic repaired; adds Self: Sync bounds to interp_array*)"),
    "B8": ("mutants/B8.diff", "process-wide usage statistics in a static atomic and a static Mutex<BTreeMap> (statics that live across engine-C iterations)"),
    "B6": ("mutants/B6.diff", "a mutex held for the whole batch: blocks under the baton, the watchdog releases the run (lost_control), answers unchanged"),
}


def sh(cmd, **kw):
    return subprocess.run(cmd, stdout=subprocess.PIPE, stderr=subprocess.STDOUT, text=True, **kw)


# Patches are applied to a scratch worktree of /repo's HEAD outside /repo and /verif; the checks are
# pointed at it through VERIF_REPO_OVERRIDE_FOR_SELFTEST (cargo `paths` override, separate target
# directory), so /repo itself is never modified by the self-tests and they can run next to other work.
SCRATCH = os.environ.get("VERIF_SELFTEST_SCRATCH", "/tmp/verif_selftest_repo")


def scratch_setup():
    if not os.path.isdir(os.path.join(SCRATCH, "src")):
        sh(["git", "-C", "/repo", "worktree", "prune"])
        r = sh(["git", "-C", "/repo", "worktree", "add", "--detach", "--force", SCRATCH, "HEAD"])
        if r.returncode != 0:
            raise SystemExit("selftest: cannot create scratch worktree: " + r.stdout)
        if os.path.exists("/repo/Cargo.lock"):
            import shutil
            shutil.copy("/repo/Cargo.lock", os.path.join(SCRATCH, "Cargo.lock"))
    os.environ["VERIF_REPO_OVERRIDE_FOR_SELFTEST"] = SCRATCH


def scratch_teardown():
    os.environ.pop("VERIF_REPO_OVERRIDE_FOR_SELFTEST", None)
    sh(["git", "-C", "/repo", "worktree", "remove", "--force", SCRATCH])
    import shutil
    shutil.rmtree(os.path.join(VERIF, "target-alt"), ignore_errors=True)


def scratch_reset():
    sh(["git", "-C", SCRATCH, "checkout", "--", "."])
    sh(["git", "-C", SCRATCH, "clean", "-fdq", "--", "src", "tests", "examples", "benches"])


def with_patch(patch, fn):
    scratch_setup()
    scratch_reset()
    r = sh(["git", "-C", SCRATCH, "apply", os.path.join(VERIF, patch)])
    if r.returncode != 0:
        return ("patch-failed", r.stdout)
    try:
        return fn()
    finally:
        scratch_reset()


def run_check(prop):
    t0 = time.time()
    r = sh([os.path.join(VERIF, "check"), prop, "quick"], cwd=VERIF)
    kinds = []
    for line in r.stdout.splitlines():
        line = line.strip()
        if line.startswith("kind="):
            kinds.append(line.split()[0][len("kind="):])
    viol = [l for l in r.stdout.splitlines() if l.startswith("VIOLATION ")]
    return r.returncode, kinds, viol, time.time() - t0, r.stdout


def sensitivity(names):
    names = names or list(SENSITIVITY)
    failed = 0
    rows = []
    for n in names:
        patch, prop, kinds, how = SENSITIVITY[n]
        res = with_patch(patch, lambda: run_check(prop))
        if res[0] == "patch-failed":
            print(f"{n}: PATCH DOES NOT APPLY\n{res[1]}")
            failed += 1
            continue
        rc, got, viol, wall, out = res
        ok = rc == 1 and any(f"property={prop}" in v for v in viol) and any(any(g.startswith(k) for k in kinds) for g in got)
        rows.append((n, prop, "caught" if ok else "MISSED", sorted(set(got)), round(wall)))
        print(f"{n:5s} {prop} {'caught' if ok else 'MISSED'} exit={rc} kinds={sorted(set(got))} wall={wall:.0f}s  [{how}]", flush=True)
        if not ok:
            failed += 1
            sys.stdout.write(out[-1500:] + "\n")
    # the reverted tree must be clean again
    print("selftest sensitivity:", "all caught" if failed == 0 else f"{failed} MISSED", flush=True)
    return 0 if failed == 0 else 1


def benign(names):
    names = names or list(BENIGN)
    failed = 0
    for n in names:
        patch, what = BENIGN[n]
        for prop in ("C17", "C18"):
            res = with_patch(patch, lambda: run_check(prop))
            if res[0] == "patch-failed":
                print(f"{n}: PATCH DOES NOT APPLY\n{res[1]}")
                failed += 1
                break
            rc, got, viol, wall, out = res
            ok = rc == 0 and not viol
            print(f"{n:4s} {prop} {'quiet' if ok else 'FALSE ALARM'} exit={rc} wall={wall:.0f}s  [{what}]", flush=True)
            if not ok:
                failed += 1
                sys.stdout.write(out[-2500:] + "\n")
    print("selftest benign:", "no alarm" if failed == 0 else f"{failed} FALSE ALARMS", flush=True)
    return 0 if failed == 0 else 1


def determinism(ck):
    """many VERIF_SEED values, each block twice in separate processes, at worker counts 1, 4 and 16"""
    import concurrent.futures as cf
    ck.build_harness()
    seeds = [1, 2, 3, 7, 20261004, 123456789, 2**40 + 5, 2**63 + 11]
    blocks = list(range(6))
    total = 0
    base = {}
    for workers in (1, 4, 16):
        with cf.ThreadPoolExecutor(max_workers=workers) as ex:
            jobs = []
            for prop in ("C17", "C18"):
                for s in seeds:
                    for b in blocks:
                        jobs.append((prop, s, b, ex.submit(ck.run_block, prop, s, b, True)))
            for prop, s, b, f in jobs:
                summary, lines = f.result()
                key = (prop, s, b)
                sig = "\n".join(lines) + json.dumps(summary["counters"], sort_keys=True)
                total += 1
                if key in base and base[key] != sig:
                    print(f"NONDETERMINISM: {prop} seed={s} block={b} differs between executions (workers={workers})")
                    return 2
                base.setdefault(key, sig)
    print(f"engine A: {total} block executions ({len(base)} distinct (property, seed, block) triples, each run 3 times at worker counts 1/4/16): event logs byte-identical")
    # engine B: (workload, Miri seed) pairs executed twice: stdout must be identical
    ck.miri_warm()
    pairs = [(i, 1000 + 17 * i, ck.MIRI_RATES[i % 3]) for i in range(12)]
    with cf.ThreadPoolExecutor(max_workers=16) as ex:
        a = list(ex.map(lambda p: ck.miri_exec(99, p[0], p[1], p[2]), pairs))
        b = list(ex.map(lambda p: ck.miri_exec(99, p[0], p[1], p[2]), pairs))
    for x, y in zip(a, b):
        if (x["class"], x["order"], x["compared"]) != (y["class"], y["order"], y["compared"]):
            print(f"NONDETERMINISM (engine B): workload {x['index']} miri seed {x['mseed']}: {x['class']}/{x['order']} vs {y['class']}/{y['order']}")
            return 2
    print(f"engine B: {len(pairs)} (workload, Miri seed) pairs executed twice: identical class and completion order")
    # engine C: each workload (both properties) executed twice in separate processes: same class,
    # same number of schedules, same number of distinct completion orders, same compared count
    ok, _, reason = ck.engine_c_build()
    if not ok:
        print("engine C does not build: " + reason)
        return 2
    n = 0
    for prop in ("C17", "C18"):
        for seed in (1, 99, 20261004):
            with cf.ThreadPoolExecutor(max_workers=16) as ex:
                a = list(ex.map(lambda i: ck.shuttle_exec(prop, seed, i, 400), range(24)))
                b = list(ex.map(lambda i: ck.shuttle_exec(prop, seed, i, 400), range(24)))
            for x, y in zip(a, b):
                n += 1
                kx = (x["class"], x["iterations"], x["compared"], x["orders"], x["workload"])
                ky = (y["class"], y["iterations"], y["compared"], y["orders"], y["workload"])
                if kx != ky:
                    print(f"NONDETERMINISM (engine C): {prop} seed {seed} workload {x['index']}: {kx} vs {ky}")
                    return 2
    print(f"engine C: {n} (property, seed, workload) triples x 400 schedules executed twice: identical class, schedule count, compared responses and distinct completion orders")
    return 0


def known_plumbing():
    """a listed finding prints KNOWN-FINDING and exits 0; a different violation of the same property
    is still reported; the file is never written at run time"""
    import tempfile
    failed = 0
    with tempfile.NamedTemporaryFile("w", suffix=".txt", delete=False) as f:
        f.write("# selftest\nknown: property=C18 kind=error-changed match=but the caller got OutOfBounds(\"x = \n")
        kf = f.name
    before = open(kf).read()
    os.environ["VERIF_KNOWN_FILE_FOR_SELFTEST"] = kf
    try:
        # M10 alone: every violation it causes is the listed one
        rc, got, viol, wall, out = with_patch("mutants/M10.diff", lambda: run_check("C18"))
        ok = rc == 0 and not viol and "KNOWN-FINDING: property=C18" in out
        print(f"known/listed-only   {'ok' if ok else 'FAILED'} exit={rc} violations={len(viol)}", flush=True)
        failed += 0 if ok else 1
        # M13 breaks C18 in a different way: must still be reported although a C18 finding is listed
        rc, got, viol, wall, out = with_patch("mutants/M13.diff", lambda: run_check("C18"))
        ok = rc == 1 and any("property=C18" in v for v in viol)
        print(f"known/other-violation {'ok' if ok else 'FAILED'} exit={rc} violations={len(viol)}", flush=True)
        failed += 0 if ok else 1
    finally:
        del os.environ["VERIF_KNOWN_FILE_FOR_SELFTEST"]
    if open(kf).read() != before:
        print("known: the file was modified at run time")
        failed += 1
    os.remove(kf)
    print("selftest known:", "ok" if failed == 0 else f"{failed} FAILED", flush=True)
    return 0 if failed == 0 else 1


def main(argv, ck):
    if not argv:
        print(__doc__)
        return 2
    if argv[0] == "determinism":
        return determinism(ck)
    try:
        if argv[0] == "sensitivity":
            return sensitivity(argv[1:])
        if argv[0] == "benign":
            return benign(argv[1:])
        if argv[0] == "known":
            return known_plumbing()
    finally:
        if os.environ.get("VERIF_SELFTEST_KEEP_SCRATCH") is None:
            scratch_teardown()
    print(__doc__)
    return 2

#!/bin/sh
# Build the framework from files on disk only (offline).
set -e
export CARGO_NET_OFFLINE=true
cd /verif/harness && cargo build --release --offline
cd /verif/probes/sendsync && cargo check --offline
# engine B: Miri sysroot (cached under ~/.cache/miri) and a warm build of the harness for Miri
cd /verif/harness
cargo +nightly miri setup >/dev/null 2>&1 || echo "warning: cargo miri setup failed (engine B will report a harness error)"
MIRIFLAGS=-Zmiri-deterministic-floats cargo +nightly miri run --release --offline -q -- nothing >/dev/null 2>&1 || true
# engine C: the harness against the instrumented shadow package (nightly toolchain, shuttle)
cd /verif && ./check prebuild || echo "warning: engine C prebuild failed (the checks will report engine C as unavailable)"
echo "setup done"

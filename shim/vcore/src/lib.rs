//! `verif_core` - the `core::` half of the std facade (see `../vstd`): under
//! `--cfg ndarray_interp_verif` the crate under test also declares `extern crate verif_core as core;`,
//! so that paths starting with `core::` resolve here. Everything is the real `core`, except that
//! `core::sync::atomic::*` are shuttle's atomics (scheduling points of the controlled scheduler)
//! and `core::hint::spin_loop` yields to it. (Seeded change r12a imported its atomics from `core::`
//! and was therefore invisible to engine C.)
pub use ::core::*;

pub mod sync {
    pub use ::core::sync::*;
    pub mod atomic {
        pub use shuttle::sync::atomic::*;
    }
}

pub mod hint {
    pub use ::core::hint::*;
    pub use shuttle::hint::spin_loop;
}

//! `verif_std` - a facade over `std` for engine C of the deterministic-simulation harness.
//!
//! Under `--cfg ndarray_interp_verif` the crate under test is `#![no_std]` and declares
//! `extern crate verif_std as std;` (the hook in `/repo/src/lib.rs`): every path that starts with
//! `std::` then resolves here. Everything is re-exported from the real std, EXCEPT the
//! synchronisation primitives, threads and thread-locals, which are shuttle's: whatever the crate
//! does with an atomic, a lock, a `Once`/`OnceLock`/`LazyLock` or a thread-local is then a
//! scheduling point of shuttle's seeded scheduler, at native speed - also for code that did not
//! exist when this facade was written (a cache somebody adds tomorrow).
//!
//! Types shuttle does not model (`OnceLock`, `LazyLock`, `LocalKey::{get,set,take,replace,
//! with_borrow..}`) are provided here on top of shuttle's `Once` / `LocalKey`.
#![allow(clippy::new_without_default)]

pub use ::std::*;

#[doc(hidden)]
pub mod __rt {
    pub use ::core::marker::PhantomData;
    pub use ::shuttle;
}

pub mod hint {
    pub use ::std::hint::*;
    pub use shuttle::hint::spin_loop;
}

pub mod thread {
    pub use shuttle::thread::*;

    use std::cell::{Cell, RefCell};

    /// std's `LocalKey` API on top of shuttle's per-(simulated)-thread storage
    pub struct LocalKey<T: 'static> {
        #[doc(hidden)]
        pub inner: shuttle::thread::LocalKey<T>,
    }

    pub use shuttle::thread::AccessError;

    impl<T: 'static> LocalKey<T> {
        pub fn with<F, R>(&'static self, f: F) -> R
        where
            F: FnOnce(&T) -> R,
        {
            self.inner.with(f)
        }
        pub fn try_with<F, R>(&'static self, f: F) -> ::core::result::Result<R, AccessError>
        where
            F: FnOnce(&T) -> R,
        {
            self.inner.try_with(f)
        }
    }

    impl<T: 'static> LocalKey<Cell<T>> {
        pub fn set(&'static self, value: T) {
            self.with(|c| c.set(value))
        }
        pub fn get(&'static self) -> T
        where
            T: Copy,
        {
            self.with(|c| c.get())
        }
        pub fn take(&'static self) -> T
        where
            T: Default,
        {
            self.with(|c| c.take())
        }
        pub fn replace(&'static self, value: T) -> T {
            self.with(|c| c.replace(value))
        }
    }

    impl<T: 'static> LocalKey<RefCell<T>> {
        pub fn with_borrow<F, R>(&'static self, f: F) -> R
        where
            F: FnOnce(&T) -> R,
        {
            self.with(|c| f(&c.borrow()))
        }
        pub fn with_borrow_mut<F, R>(&'static self, f: F) -> R
        where
            F: FnOnce(&mut T) -> R,
        {
            self.with(|c| f(&mut c.borrow_mut()))
        }
        pub fn set(&'static self, value: T) {
            self.with(|c| *c.borrow_mut() = value)
        }
        pub fn take(&'static self) -> T
        where
            T: Default,
        {
            self.with(|c| c.take())
        }
        pub fn replace(&'static self, value: T) -> T {
            self.with(|c| c.replace(value))
        }
    }
}

/// `thread_local!` with std's syntax (including `const { .. }` initialisers), per simulated thread
#[macro_export]
macro_rules! thread_local {
    () => {};
    ($(#[$attr:meta])* $vis:vis static $name:ident: $t:ty = const { $init:expr }; $($rest:tt)*) => (
        $crate::__verif_thread_local_inner!($(#[$attr])* $vis $name, $t, $init);
        $crate::thread_local!($($rest)*);
    );
    ($(#[$attr:meta])* $vis:vis static $name:ident: $t:ty = const { $init:expr }) => (
        $crate::__verif_thread_local_inner!($(#[$attr])* $vis $name, $t, $init);
    );
    ($(#[$attr:meta])* $vis:vis static $name:ident: $t:ty = const $init:block; $($rest:tt)*) => (
        $crate::__verif_thread_local_inner!($(#[$attr])* $vis $name, $t, $init);
        $crate::thread_local!($($rest)*);
    );
    ($(#[$attr:meta])* $vis:vis static $name:ident: $t:ty = const $init:block) => (
        $crate::__verif_thread_local_inner!($(#[$attr])* $vis $name, $t, $init);
    );
    ($(#[$attr:meta])* $vis:vis static $name:ident: $t:ty = $init:expr; $($rest:tt)*) => (
        $crate::__verif_thread_local_inner!($(#[$attr])* $vis $name, $t, $init);
        $crate::thread_local!($($rest)*);
    );
    ($(#[$attr:meta])* $vis:vis static $name:ident: $t:ty = $init:expr) => (
        $crate::__verif_thread_local_inner!($(#[$attr])* $vis $name, $t, $init);
    );
}

#[doc(hidden)]
#[macro_export]
macro_rules! __verif_thread_local_inner {
    ($(#[$attr:meta])* $vis:vis $name:ident, $t:ty, $init:expr) => {
        $(#[$attr])* $vis static $name: $crate::thread::LocalKey<$t> = $crate::thread::LocalKey {
            inner: $crate::__rt::shuttle::thread::LocalKey {
                init: || { $init },
                _p: $crate::__rt::PhantomData,
            },
        };
    };
}

/// The clock seam: `std::time::Instant` of the crate under test reads a *simulated* monotonic
/// clock owned by the simulator. Every read advances it by a seeded pseudo-random step - mostly
/// tens of nanoseconds, sometimes milliseconds, occasionally seconds (a stalled machine, a
/// suspended VM) - so that time-outs, expiry and "once per second" logic inside the crate are
/// exercised within microseconds of real time, reproducibly. `SystemTime` is left alone.
pub mod time {
    pub use ::std::time::{Duration, SystemTime, SystemTimeError, UNIX_EPOCH};
    use ::std::ops::{Add, AddAssign, Sub, SubAssign};
    use ::std::sync::atomic::{AtomicU64, Ordering};

    static NOW_NS: AtomicU64 = AtomicU64::new(1_000_000_000);
    static RNG: AtomicU64 = AtomicU64::new(0x9E37_79B9_7F4A_7C15);
    static READS: AtomicU64 = AtomicU64::new(0);

    /// (re)seed the step generator; the clock itself keeps running (it is monotonic for the
    /// whole process, like the real one)
    pub fn sim_seed(seed: u64) {
        RNG.store(seed | 1, Ordering::Relaxed);
    }
    /// (simulated nanoseconds since process start, number of clock reads by the crate under test)
    pub fn sim_stats() -> (u64, u64) {
        (NOW_NS.load(Ordering::Relaxed) - 1_000_000_000, READS.load(Ordering::Relaxed))
    }
    fn step() -> u64 {
        // splitmix64; all simulated threads are continuations on one OS thread: no contention
        let mut z = RNG.load(Ordering::Relaxed).wrapping_add(0x9E37_79B9_7F4A_7C15);
        RNG.store(z, Ordering::Relaxed);
        z = (z ^ (z >> 30)).wrapping_mul(0xBF58_476D_1CE4_E5B9);
        z = (z ^ (z >> 27)).wrapping_mul(0x94D0_49BB_1331_11EB);
        z ^= z >> 31;
        match z % 100 {
            0 => 1_000_000_000 + z % 4_000_000_000,  // a jump of 1-5 s
            1..=2 => 100_000_000 + z % 900_000_000,  // 0.1-1 s
            3..=9 => 1_000_000 + z % 20_000_000,     // 1-21 ms
            _ => 20 + z % 200,                       // tens of ns
        }
    }

    #[derive(Copy, Clone, PartialEq, Eq, PartialOrd, Ord, Hash, Debug)]
    pub struct Instant(u64);

    impl Instant {
        pub fn now() -> Instant {
            READS.fetch_add(1, Ordering::Relaxed);
            Instant(NOW_NS.fetch_add(step(), Ordering::Relaxed))
        }
        pub fn elapsed(&self) -> Duration {
            Instant::now().saturating_duration_since(*self)
        }
        pub fn duration_since(&self, earlier: Instant) -> Duration {
            self.saturating_duration_since(earlier)
        }
        pub fn checked_duration_since(&self, earlier: Instant) -> Option<Duration> {
            self.0.checked_sub(earlier.0).map(Duration::from_nanos)
        }
        pub fn saturating_duration_since(&self, earlier: Instant) -> Duration {
            Duration::from_nanos(self.0.saturating_sub(earlier.0))
        }
        pub fn checked_add(&self, d: Duration) -> Option<Instant> {
            u64::try_from(d.as_nanos()).ok().and_then(|n| self.0.checked_add(n)).map(Instant)
        }
        pub fn checked_sub(&self, d: Duration) -> Option<Instant> {
            u64::try_from(d.as_nanos()).ok().and_then(|n| self.0.checked_sub(n)).map(Instant)
        }
    }
    impl Add<Duration> for Instant {
        type Output = Instant;
        fn add(self, d: Duration) -> Instant {
            self.checked_add(d).expect("overflow when adding duration to instant")
        }
    }
    impl Sub<Duration> for Instant {
        type Output = Instant;
        fn sub(self, d: Duration) -> Instant {
            self.checked_sub(d).expect("overflow when subtracting duration from instant")
        }
    }
    impl Sub<Instant> for Instant {
        type Output = Duration;
        fn sub(self, o: Instant) -> Duration {
            self.saturating_duration_since(o)
        }
    }
    impl AddAssign<Duration> for Instant {
        fn add_assign(&mut self, d: Duration) {
            *self = *self + d;
        }
    }
    impl SubAssign<Duration> for Instant {
        fn sub_assign(&mut self, d: Duration) {
            *self = *self - d;
        }
    }
}

pub mod sync {
    pub use ::std::sync::*;
    pub use shuttle::sync::{Barrier, BarrierWaitResult, Condvar, Mutex, MutexGuard, Once, OnceState, RwLock, RwLockReadGuard, RwLockWriteGuard, WaitTimeoutResult};

    pub mod atomic {
        pub use shuttle::sync::atomic::*;
    }
    pub mod mpsc {
        pub use shuttle::sync::mpsc::*;
    }

    use std::cell::{Cell, UnsafeCell};

    /// `std::sync::OnceLock` on top of shuttle's `Once` (initialisation and every completed-check
    /// are scheduling points)
    pub struct OnceLock<T> {
        once: Once,
        value: UnsafeCell<Option<T>>,
    }
    // Safety: as std's OnceLock - the value is written once, under `once`, before it is shared.
    unsafe impl<T: Sync + Send> Sync for OnceLock<T> {}
    unsafe impl<T: Send> Send for OnceLock<T> {}
    impl<T> ::std::panic::RefUnwindSafe for OnceLock<T> {}
    impl<T> ::std::panic::UnwindSafe for OnceLock<T> {}

    impl<T> OnceLock<T> {
        pub const fn new() -> OnceLock<T> {
            OnceLock { once: Once::new(), value: UnsafeCell::new(None) }
        }
        pub fn get(&self) -> Option<&T> {
            if self.once.is_completed() {
                // Safety: completed => the value was written and is never written again
                unsafe { (*self.value.get()).as_ref() }
            } else {
                None
            }
        }
        pub fn get_mut(&mut self) -> Option<&mut T> {
            self.value.get_mut().as_mut()
        }
        pub fn set(&self, value: T) -> Result<(), T> {
            let mut v = Some(value);
            self.once.call_once(|| unsafe { *self.value.get() = v.take() });
            match v {
                None => Ok(()),
                Some(v) => Err(v),
            }
        }
        pub fn get_or_init<F: FnOnce() -> T>(&self, f: F) -> &T {
            self.once.call_once(|| unsafe { *self.value.get() = Some(f()) });
            self.get().expect("OnceLock initialised")
        }
        pub fn into_inner(self) -> Option<T> {
            self.value.into_inner()
        }
        pub fn take(&mut self) -> Option<T> {
            let v = self.value.get_mut().take();
            self.once = Once::new();
            v
        }
    }
    impl<T> Default for OnceLock<T> {
        fn default() -> Self {
            Self::new()
        }
    }
    impl<T: ::std::fmt::Debug> ::std::fmt::Debug for OnceLock<T> {
        fn fmt(&self, f: &mut ::std::fmt::Formatter<'_>) -> ::std::fmt::Result {
            f.debug_tuple("OnceLock").field(&self.get()).finish()
        }
    }
    impl<T: Clone> Clone for OnceLock<T> {
        fn clone(&self) -> Self {
            let c = OnceLock::new();
            if let Some(v) = self.get() {
                let _ = c.set(v.clone());
            }
            c
        }
    }
    impl<T> From<T> for OnceLock<T> {
        fn from(v: T) -> Self {
            let c = OnceLock::new();
            let _ = c.set(v);
            c
        }
    }

    /// `std::sync::LazyLock` on top of [`OnceLock`]
    pub struct LazyLock<T, F = fn() -> T> {
        cell: OnceLock<T>,
        init: Cell<Option<F>>,
    }
    // Safety: `init` is only touched inside the Once
    unsafe impl<T: Sync + Send, F: Send> Sync for LazyLock<T, F> {}
    impl<T, F: FnOnce() -> T> LazyLock<T, F> {
        pub const fn new(f: F) -> LazyLock<T, F> {
            LazyLock { cell: OnceLock::new(), init: Cell::new(Some(f)) }
        }
        pub fn force(this: &LazyLock<T, F>) -> &T {
            this.cell.get_or_init(|| match this.init.take() {
                Some(f) => f(),
                None => panic!("LazyLock instance has previously been poisoned"),
            })
        }
    }
    impl<T, F: FnOnce() -> T> ::std::ops::Deref for LazyLock<T, F> {
        type Target = T;
        fn deref(&self) -> &T {
            LazyLock::force(self)
        }
    }
    impl<T: ::std::fmt::Debug, F> ::std::fmt::Debug for LazyLock<T, F> {
        fn fmt(&self, f: &mut ::std::fmt::Formatter<'_>) -> ::std::fmt::Result {
            f.debug_tuple("LazyLock").field(&self.cell.get()).finish()
        }
    }
}

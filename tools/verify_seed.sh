#!/bin/sh
# Confirm a seeded change written by a sub-agent in its scratch worktree:
#   (1) the unedited test suite passes with the change,
#   (2) the demonstration fails with the change,
#   (3) the demonstration passes without it.
# usage: tools/verify_seed.sh <worktree> <name>   -> copies patch.diff, demo.rs, NOTES.md to seeded/<name>/
set -u
WT="$1"; NAME="$2"
OUT="$(cd "$(dirname "$0")/.." && pwd)/seeded/$NAME"
export CARGO_NET_OFFLINE=true
cd "$WT" || exit 2
rm -f tests/zz_demo.rs
git add -N src >/dev/null 2>&1   # new files count
git diff -- src > /tmp/seed-$NAME.diff
[ -s /tmp/seed-$NAME.diff ] || { echo "no src change in $WT"; exit 2; }
echo "== (1) test suite with the change"
cargo test --offline 2>&1 | grep -E "^test result|FAILED|^error" | sed 's/^/   /'
s1=$(cargo test --offline 2>&1 | grep -c "^test result: FAILED\|^error")
echo "== (2) demo with the change (must fail)"
cp demo.rs tests/zz_demo.rs
cargo test --offline --test zz_demo 2>&1 | grep -E "^test result|^error" | sed 's/^/   /'
cargo test --offline --test zz_demo >/dev/null 2>&1; s2=$?
echo "== (3) demo without the change (must pass)"
git apply -R /tmp/seed-$NAME.diff || { echo "cannot revert the change"; exit 2; }
cargo test --offline --test zz_demo 2>&1 | grep -E "^test result|^error" | sed 's/^/   /'
cargo test --offline --test zz_demo >/dev/null 2>&1; s3=$?
git apply /tmp/seed-$NAME.diff
rm -f tests/zz_demo.rs
echo "suite_failures=$s1 demo_with=$s2 demo_without=$s3"
if [ "$s1" = 0 ] && [ "$s2" != 0 ] && [ "$s3" = 0 ]; then
  mkdir -p "$OUT"
  cp /tmp/seed-$NAME.diff "$OUT/patch.diff"; cp demo.rs "$OUT/demo.rs"; [ -f NOTES.md ] && cp NOTES.md "$OUT/NOTES.md"
  echo "CONFIRMED -> $OUT"
else
  echo "NOT CONFIRMED"
fi
rm -f /tmp/seed-$NAME.diff
